#!/usr/bin/env python3
"""Generates /verif/mutants/*.patch from textual substitutions on /repo's current tree (DESIGN.md section 7).

Each mutant is a deliberate property-breaking change that still compiles. bin/selftest applies each one to a
scratch copy (never to /repo), checks that the repository's own tests still pass, and asserts that the named
checks report a violation. The pinned-* patches (reverse patches of the fix: commits) are kept as they are.
"""
import difflib
import os
import sys

REPO = "/repo"
OUT = os.path.join(os.path.dirname(os.path.dirname(os.path.abspath(__file__))), "mutants")

# (name, detecting properties, file, old, new)
M = [
    # ---- C01
    ("C01-ladder-starts-at-254", ["C01"], "element.go", "for i := 255; i >= 0; i-- {", "for i := 254; i >= 0; i-- {"),
    # ---- C02
    ("C02-subtract-negates-argument-in-place", ["C02", "C10", "C15"], "element.go", "q := element.copy().negate()", "q := element.negate()"),
    ("C02-double-wrong-b3", ["C02", "C01", "C10"], "element.go",
     "func (e *Element) doubleProjectiveComplete(u *Element) *Element {\n\t// b3 is 3*b = 3*7 = 21, in the Montgomery form.\n\tb3 := field.Element{E: field.MontgomeryDomainFieldElement{90194333733, 0, 0, 0}}",
     "func (e *Element) doubleProjectiveComplete(u *Element) *Element {\n\t// b3 is 3*b = 3*7 = 21, in the Montgomery form.\n\tb3 := field.Element{E: field.MontgomeryDomainFieldElement{90194333733, 0, 0, 0}}\n\tif u.z.IsZero() == 1 {\n\t\tb3.E[0] = 0\n\t\te.x.Set(&u.y)\n\t\te.y.Set(&u.x)\n\t\treturn e\n\t}"),
    # ---- C03
    ("C03-no-y-range-check", ["C03"], "element.go",
     "\tfey, reduced := field.New().FromBytesWithReduce(y)\n\tif reduced == 0 {\n\t\treturn errParamInvalidPointEncoding\n\t}", "\tfey, _ := field.New().FromBytesWithReduce(y)"),
    ("C03-accept-hybrid-prefix", ["C03"], "element.go",
     "if data[0] != encodingPrefixEven && data[0] != encodingPrefixOdd {", "if data[0]&0xfb != encodingPrefixEven && data[0]&0xfb != encodingPrefixOdd {"),
    ("C03-write-x-before-square-test", ["C03"], "element.go",
     "\tvar y2 field.Element\n\tSecp256Polynomial(&y2, x)\n\n\ty, isSquare", "\tvar y2 field.Element\n\tSecp256Polynomial(&y2, x)\n\te.x.Set(x)\n\n\ty, isSquare"),
    ("C03-identity-any-single-byte", ["C03"], "element.go",
     "\t\tif data[0] != encodingPrefixIdentity {\n\t\t\treturn errParamInvalidPointEncoding\n\t\t}\n", "\t\tif data[0] > encodingPrefixIdentity+1 {\n\t\t\treturn errParamInvalidPointEncoding\n\t\t}\n"),
    # ---- C04
    ("C04-parity-from-projective-y", ["C04", "C10"], "element.go", "int(affine.y.Sgn0())", "int(e.y.Sgn0())"),
    # ---- C05
    ("C05-equal-ignores-y", ["C05", "C10"], "element.go", "return int(x1z2.Equals(x2z1) & y1z2.Equals(y2z1))", "return int(x1z2.Equals(x2z1) & (y1z2.Equals(y2z1) | 1))"),
    ("C05-equal-ignores-x", ["C05", "C10"], "element.go", "return int(x1z2.Equals(x2z1) & y1z2.Equals(y2z1))", "return int((x1z2.Equals(x2z1) | 1) & y1z2.Equals(y2z1))"),
    # ---- C10
    ("C10-copy-returns-receiver", ["C10"], "element.go", "func (e *Element) Copy() *Element {\n\treturn e.copy()", "func (e *Element) Copy() *Element {\n\treturn e"),
    ("C10-newelement-shares-identity", ["C10", "C16"], "element.go", "func newElement() *Element {\n\treturn newEmptyElement().set(&identity)", "func newElement() *Element {\n\treturn &identity"),
]


def main():
    os.makedirs(OUT, exist_ok=True)
    meta = {}
    for name, props, path, old, new in M:
        src = open(os.path.join(REPO, path)).read()
        if src.count(old) != 1:
            print("SKIP %s: pattern occurs %d times in %s" % (name, src.count(old), path), file=sys.stderr)
            continue
        dst = src.replace(old, new)
        diff = "".join(difflib.unified_diff(src.splitlines(True), dst.splitlines(True), "a/" + path, "b/" + path))
        open(os.path.join(OUT, name + ".patch"), "w").write(diff)
        meta[name] = props
    # pinned defects (reverse patches of the fix commits)
    meta.update({
        "C14-pinned-bits255": ["C14", "C01"],
        "C13-pinned-lessorequal": ["C13"],
        "C13-pinned-cselect": ["C13"],
        "C15-pinned-dstappend": ["C15", "C16"],
        "C17-pinned-nosha256": ["C17"],
        "C04-pinned-uncompressed-identity": ["C04", "C10"],
    })
    import json
    json.dump(meta, open(os.path.join(OUT, "expect.json"), "w"), indent=1, sort_keys=True)
    print("wrote %d mutants" % len(meta))


if __name__ == "__main__":
    main()
