#!/usr/bin/env python3
"""Generates /verif/mutants/*.patch from textual substitutions on /repo's current tree (DESIGN.md section 7).

Each mutant is a deliberate property-breaking change that still compiles. bin/selftest applies each one to a
scratch copy (never to /repo), checks that the repository's own tests still pass, and asserts that the named
checks report a violation. The pinned-* patches (reverse patches of the fix: commits) are kept as they are.
"""
import difflib
import os
import sys

REPO = "/repo"
OUT = os.path.join(os.path.dirname(os.path.dirname(os.path.abspath(__file__))), "mutants")

# (name, detecting properties, file, old, new)
M = [
    # ---- C01
    ("C01-ladder-starts-at-254", ["C01"], "element.go", "for i := 255; i >= 0; i-- {", "for i := 254; i >= 0; i-- {"),
    # ---- C02
    ("C02-subtract-negates-argument-in-place", ["C02", "C10", "C15"], "element.go", "q := element.copy().negate()", "q := element.negate()"),
    ("C02-double-wrong-b3", ["C02", "C01", "C10"], "element.go",
     "func (e *Element) doubleProjectiveComplete(u *Element) *Element {\n\t// b3 is 3*b = 3*7 = 21, in the Montgomery form.\n\tb3 := field.Element{E: field.MontgomeryDomainFieldElement{90194333733, 0, 0, 0}}",
     "func (e *Element) doubleProjectiveComplete(u *Element) *Element {\n\t// b3 is 3*b = 3*7 = 21, in the Montgomery form.\n\tb3 := field.Element{E: field.MontgomeryDomainFieldElement{90194333733, 0, 0, 0}}\n\tif u.z.IsZero() == 1 {\n\t\tb3.E[0] = 0\n\t\te.x.Set(&u.y)\n\t\te.y.Set(&u.x)\n\t\treturn e\n\t}"),
    # ---- C03
    ("C03-no-y-range-check", ["C03"], "element.go",
     "\tfey, reduced := field.New().FromBytesWithReduce(y)\n\tif reduced == 0 {\n\t\treturn errParamInvalidPointEncoding\n\t}", "\tfey, _ := field.New().FromBytesWithReduce(y)"),
    ("C03-accept-hybrid-prefix", ["C03"], "element.go",
     "if data[0] != encodingPrefixEven && data[0] != encodingPrefixOdd {", "if data[0]&0xfb != encodingPrefixEven && data[0]&0xfb != encodingPrefixOdd {"),
    ("C03-write-x-before-square-test", ["C03"], "element.go",
     "\tvar y2 field.Element\n\tSecp256Polynomial(&y2, x)\n\n\ty, isSquare", "\tvar y2 field.Element\n\tSecp256Polynomial(&y2, x)\n\te.x.Set(x)\n\n\ty, isSquare"),
    ("C03-identity-any-single-byte", ["C03"], "element.go",
     "\t\tif data[0] != encodingPrefixIdentity {\n\t\t\treturn errParamInvalidPointEncoding\n\t\t}\n", "\t\tif data[0] > encodingPrefixIdentity+1 {\n\t\t\treturn errParamInvalidPointEncoding\n\t\t}\n"),
    # ---- C04
    ("C04-parity-from-projective-y", ["C04", "C10"], "element.go", "int(affine.y.Sgn0())", "int(e.y.Sgn0())"),
    # ---- C05
    ("C05-equal-ignores-y", ["C05", "C10"], "element.go", "return int(x1z2.Equals(x2z1) & y1z2.Equals(y2z1))", "return int(x1z2.Equals(x2z1) & (y1z2.Equals(y2z1) | 1))"),
    ("C05-equal-ignores-x", ["C05", "C10"], "element.go", "return int(x1z2.Equals(x2z1) & y1z2.Equals(y2z1))", "return int((x1z2.Equals(x2z1) | 1) & y1z2.Equals(y2z1))"),
    # ---- C19
    ("C19-skip-leading-zero-bits", ["C19"], "element.go",
     "\tfor i := 255; i >= 0; i-- {\n\t\tif bits[i] == 0 {", "\ttop := 255\n\tfor top > 0 && bits[top] == 0 {\n\t\ttop--\n\t}\n\n\tfor i := top; i >= 0; i-- {\n\t\tif bits[i] == 0 {"),
    ("C19-early-return-for-zero", ["C19"], "element.go",
     "\tif s.IsOne() {\n\t\treturn e\n\t}\n", "\tif s.IsOne() {\n\t\treturn e\n\t}\n\n\tif s.IsZero() {\n\t\treturn e.Identity()\n\t}\n"),
    ("C19-identity-fast-path-in-ladder", ["C19"], "element.go",
     "\t\tif bits[i] == 0 {\n\t\t\tr1.Add(r0)\n\t\t\tr0.Double()", "\t\tif bits[i] == 0 {\n\t\t\tr1.Add(r0)\n\t\t\tif !r0.IsIdentity() {\n\t\t\t\tr0.Double()\n\t\t\t}"),
    # ---- C18
    ("C18-no-retry-on-zero", ["C18"], "scalar.go",
     "\tfor scalar.IsFEZero(&m) == 1 {\n\t\t_, err := io.ReadFull(rand.Reader, buf[:])", "\tfor first := true; first; first = false {\n\t\t_, err := io.ReadFull(rand.Reader, buf[:])"),
    ("C18-ignore-read-error", ["C18"], "scalar.go",
     "\t\tif err != nil {\n\t\t\tpanic(err)\n\t\t}\n\n\t\tnm := scalar.BytesToNonMontgomery(buf)", "\t\tif err != nil && err != io.ErrUnexpectedEOF {\n\t\t\tpanic(err)\n\t\t}\n\n\t\tnm := scalar.BytesToNonMontgomery(buf)"),
    ("C18-no-reduce", ["C18"], "scalar.go", "\t\t_ = scalar.Reduce(nm)\n", "\t\tif scalar.Reduce(nm) == 0 {\n\t\t\tcontinue\n\t\t}\n"),
    # ---- C06 / C07 / C12 / C09 / C08 / C11
    ("C06-multiply-nil-noop", ["C06"], "scalar.go", "\tif t == nil {\n\t\treturn s.Zero()\n\t}\n\n\tscalar.Mul(&s.S, &s.S, &t.S)", "\tif t == nil {\n\t\treturn s\n\t}\n\n\tscalar.Mul(&s.S, &s.S, &t.S)"),
    ("C06-minusone-constant-off", ["C06"], "scalar.go", "\ts.S[2] = 18446744073709551613", "\ts.S[2] = 18446744073709551612"),
    ("C07-decode-accepts-n", ["C07"], "internal/scalar/scalar.go",
     "\txMinP[0], borrow = bits.Sub64(x[0], order[0], borrow)", "\txMinP[0], borrow = bits.Sub64(x[0], order[0]+1, borrow)"),
    ("C07-reduce-ignores-low-limb", ["C07", "C18"], "internal/scalar/scalar.go",
     "\txMinP[0], borrow = bits.Sub64(x[0], order[0], borrow)", "\txMinP[0], borrow = bits.Sub64(x[0]|1, order[0], borrow)"),
    ("C09-two192-constant", ["C09"], "internal/scalar/scalar.go", "\t\t10328527898029845308,\n\t\t10739309058364017386,", "\t\t10328527898029845309,\n\t\t10739309058364017386,"),
    ("C09-expander-length-32", ["C09"], "group.go", "uniform := expandXMD(input, dst, uint(secLength))\n\ts := NewScalar()", "uniform := append(expandXMD(input, dst, 32), make([]byte, 16)...)\n\ts := NewScalar()"),
    ("C08-oversize-prefix-misspelt", ["C08", "C09"], "xmd.go", 'dstLongPrefix        = "H2C-OVERSIZE-DST-"', 'dstLongPrefix        = "H2C-OVERSIZED-DST-"'),
    ("C08-oversize-threshold-256", ["C08", "C09"], "xmd.go", "dstMaxLength         = 255", "dstMaxLength         = 256"),
    ("C08-u1-from-first-bytes", ["C08"], "group.go", "u1 := field.New().HashToFieldElement([secLength]byte(uniform[secLength : 2*secLength]))", "u1 := field.New().HashToFieldElement([secLength]byte(uniform[secLength-1 : 2*secLength-1]))"),
    ("C11-sign-fixup-inverted-on-exceptional-branch", ["C11"], "mapping.go", "\ty.CMove(e1, y1, y) //    24.   y = CMOV(-y, y, e1),", "\ty.CMove(e1^tv2Zero, y1, y) //    24.   y = CMOV(-y, y, e1),"),
    ("C11-exceptional-branch-wrong-constant", ["C11"], "mapping.go", "tv4 := field.New().CMove(tv2Zero, tv2, z)", "tv4 := field.New().CMove(tv2Zero, tv2, isoB)"),
    ("C12-equals-ignores-limb3", ["C12"], "internal/field/element.go", "\tres |= e.E[3] ^ u.E[3]\n", ""),
    ("C12-reduce-top-limb-mask", ["C12", "C03"], "internal/field/element.go", "\tx[3] = (xMinP[3] & ^mask) | (x[3] & mask)", "\tx[3] = (xMinP[3] & mask) | (x[3] & ^mask)"),
    ("C12-wide-reduction-constant", ["C12", "C08"], "internal/field/element.go", "two192 = &MontgomeryDomainFieldElement{0, 0, 0, 4294968273}", "two192 = &MontgomeryDomainFieldElement{0, 0, 0, 4294968272}"),
    ("C12-invert-chain-one-squaring-less", ["C12", "C04"], "internal/field/fe_invert.go", "for s := 0; s < 46; s++ {", "for s := 0; s < 45; s++ {"),
    ("C06-scalar-invert-chain-one-squaring-less", ["C06"], "internal/scalar/scalar_invert.go", "for s := 0; s < 60; s++ {", "for s := 0; s < 59; s++ {"),
    ("C12-sqrt-chain-one-squaring-more", ["C12", "C03"], "internal/field/fe_expPMin3Div4.go", "for s := 1; s < 108; s++ {", "for s := 1; s < 109; s++ {"),
    # ---- C15 / C16
    ("C15-order-returns-package-slice", ["C15"], "group.go",
     "func Order() []byte {", "var orderBytes = orderFresh()\n\n// Order returns the order of the canonical group of scalars.\nfunc Order() []byte { return orderBytes }\n\nfunc orderFresh() []byte {"),
    ("C16-global-temp-in-subtract", ["C16", "C10"], "element.go",
     "\tq := element.copy().negate()\n", "\tq := subTmp.set(element).negate()\n"),
    ("C16-global-scratch-hash", ["C16"], "xmd.go",
     "\th := crypto.SHA256.New()\n", "\tif scratchHash == nil {\n\t\tscratchHash = crypto.SHA256.New()\n\t}\n\n\th := scratchHash\n"),
    # ---- C10
    ("C10-multiply-cache-keyed-by-pointer", ["C10", "C16"], "element.go",
     "\tr0 := newElement()\n\tr1 := e.copy()\n\tbits := s.Bits()\n", "\tif mulCache.ok && mulCache.p == e && mulCache.k == [4]uint64(s.S) {\n\t\treturn e.set(&mulCache.out)\n\t}\n\n\tr0 := newElement()\n\tr1 := e.copy()\n\tbits := s.Bits()\n"),
    ("C10-copy-returns-receiver", ["C10"], "element.go", "func (e *Element) Copy() *Element {\n\treturn e.copy()", "func (e *Element) Copy() *Element {\n\treturn e"),
    ("C10-newelement-shares-identity", ["C10", "C16"], "element.go", "func newElement() *Element {\n\treturn newEmptyElement().set(&identity)", "func newElement() *Element {\n\treturn &identity"),
]


# additional edits in the same file (two cooperating sites)
EXTRA = {
    "C10-multiply-cache-keyed-by-pointer": [
        ("\te.set(r0)\n\n\treturn e\n}\n\n// Multiply sets", "\te.set(r0)\n\tmulCache.p, mulCache.k, mulCache.ok = e, [4]uint64(s.S), true\n\tmulCache.out.set(r0)\n\n\treturn e\n}\n\n// Multiply sets"),
        ("var identity = Element{", "var mulCache struct {\n\tp   *Element\n\tk   [4]uint64\n\tout Element\n\tok  bool\n}\n\nvar identity = Element{"),
    ],
    "C16-global-temp-in-subtract": [("var identity = Element{", "var subTmp Element\n\nvar identity = Element{")],
    "C16-global-scratch-hash": [("var errZeroLenDST = ", "var scratchHash hash.Hash\n\nvar errZeroLenDST = ")],
}


def main():
    os.makedirs(OUT, exist_ok=True)
    meta = {}
    for name, props, path, old, new in M:
        src = open(os.path.join(REPO, path)).read()
        if src.count(old) != 1:
            print("SKIP %s: pattern occurs %d times in %s" % (name, src.count(old), path), file=sys.stderr)
            continue
        dst = src.replace(old, new)
        for old2, new2 in EXTRA.get(name, []):
            if dst.count(old2) != 1:
                print("SKIP %s: extra pattern occurs %d times" % (name, dst.count(old2)), file=sys.stderr)
            dst = dst.replace(old2, new2)
        diff = "".join(difflib.unified_diff(src.splitlines(True), dst.splitlines(True), "a/" + path, "b/" + path))
        open(os.path.join(OUT, name + ".patch"), "w").write(diff)
        meta[name] = props
    # pinned defects (reverse patches of the fix commits)
    meta.update({
        "C14-pinned-bits255": ["C14", "C01"],
        "C13-pinned-lessorequal": ["C13"],
        "C13-pinned-cselect": ["C13"],
        "C15-pinned-dstappend": ["C15", "C16"],
        "C17-pinned-nosha256": ["C17"],
        "C04-pinned-uncompressed-identity": ["C04", "C10"],
    })
    # hand-written patches kept as files: synchronisation defects that only the scheduler exploration sees (no data
    # race, no package-level state, sequentially correct)
    meta.update({
        "C16-locked-memo-published-before-filled": ["C16"],
        "C16-lock-order-deadlock": ["C16"],
        "C16-semaphore-token-leaked-on-panic-path": ["C16", "C09"],
    })
    import json
    json.dump(meta, open(os.path.join(OUT, "expect.json"), "w"), indent=1, sort_keys=True)
    print("wrote %d mutants" % len(meta))


if __name__ == "__main__":
    main()
