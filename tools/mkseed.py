#!/usr/bin/env python3
"""mkseed.py <PROP> <n> <steer-file>: creates /tmp/seed/<PROP>-<n>/{wt,prompt.txt} for an independent seeding agent.
The prompt contains only the property text and the steer; nothing from /verif."""
import json, os, subprocess, sys

prop, n, steer = sys.argv[1], sys.argv[2], open(sys.argv[3]).read().strip()
d = f"/tmp/seed/{prop}-{n}"
os.makedirs(d, exist_ok=True)
p = next(json.loads(l) for l in open("/verif/properties.jsonl") if json.loads(l)["id"] == prop)
if not os.path.isdir(d + "/wt"):
    subprocess.check_call(["git", "-C", "/repo", "worktree", "add", "--detach", d + "/wt", "HEAD"], stdout=subprocess.DEVNULL, stderr=subprocess.DEVNULL)
tmpl = open("/tmp/seed/C12-9/prompt.txt").read() if False else None
text = f"""You are helping to evaluate a verification framework by playing the role of a developer who introduces a subtle regression into a Go library.

The library is bytemare/secp256k1 (pure-Go secp256k1 group: Fiat-Crypto field/scalar arithmetic, complete projective addition, SEC1 point encodings, RFC 9380 hash-to-curve). You have your own scratch git worktree of it at:

    {d}/wt

Work ONLY inside that directory and {d}/ (never touch /repo or /verif, never look at /verif). The sandbox has no network. Every shell call that uses go must start with:

    export GOFLAGS=-mod=mod GOPROXY=off GOSUMDB=off GOTOOLCHAIN=local

The library's existing test suite is run with:  cd {d}/wt && go test -vet=off -count=1 ./...

Here is a semantic property that the library is supposed to satisfy:

-----
{p['id']}: {p['title']}

{p['statement']}

Quantified over: {p['quantifier']}
-----

Your task: make ONE realistic change to the library's non-test source code (the kind of thing a maintainer could plausibly write during a refactor, optimisation or "simplification" - not an obviously malicious edit, no new exported API, no test-file edits) such that

  1. the library still compiles and ALL existing tests still pass (run them), and
  2. the property above is violated, and
  3. the violation needs something specific to manifest - a particular unusual input or internal representation, a multi-step sequence of operations, particular aliasing between receiver and arguments, a particular slice capacity layout, a particular interleaving of goroutines, a fault of the environment, or two cooperating code sites that each look fine alone - rather than something ordinary use would expose at once.

{steer}

Be creative and pick something different from the most obvious idea; read the code first (element.go, scalar.go, group.go, xmd.go, mapping.go, internal/field, internal/scalar) to find a genuinely plausible spot.

Then write a demonstration: a Go test file (package name ending in _test, placed in {d}/wt/tests/ or {d}/wt/ as appropriate; it may only use the exported API, or be an internal test if it must) that FAILS with your change and PASSES on the unchanged library. Verify both directions yourself. IMPORTANT: do NOT use `git stash` (the stash is shared between worktrees and other people are working in sibling worktrees); instead save your change with `git diff > {d}/patch.diff`, revert with `git checkout -- .`, run the demo against the unchanged code, and re-apply with `git apply {d}/patch.diff`.

Deliverables (write exactly these files):
  {d}/patch.diff   - output of `git diff` in the worktree restricted to the library change only (NOT the demo test); it must apply with `git apply` / `patch -p1` to a clean checkout.
  {d}/demo_test.go - the demonstration test file (also say in notes.md which directory it goes into and the go test command to run it).
  {d}/notes.md     - 10-20 lines: what you changed, why the existing tests still pass, exactly what is needed for the violation to manifest, and the commands you ran with their outcomes (tests pass with change; demo fails with change; demo passes without).

Finish by leaving the worktree with your library change applied and the demo test present. Report back a 5-line summary.
"""
open(d + "/prompt.txt", "w").write(text)
print(d)
