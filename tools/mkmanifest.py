#!/usr/bin/env python3
"""Writes /verif/MANIFEST.json from the table below (kept next to bin/check's PLAN)."""
import json
import os

VERIF = os.path.dirname(os.path.dirname(os.path.abspath(__file__)))

MC = "model_checking"

# id -> (technique, level text, level note, design ref, category)
CHECKS = {
    "C01": ("exhaustive enumeration of (representation, scalar) over complete small-curve instances of the real ladder + boundary-alphabet product on the real curve, against independent group models",
            "Small curves y^2=x^3+7 over F_13/F_43 (thorough: +F_67, F_79): the unmodified element.go runs over a stand-in field and Multiply is executed from EVERY projective representation of EVERY point (complete state space of the instance) with 256-bit scalars incl. every k >= 2^255 class, against Z/N_q. Real curve: point alphabet x scalings x scalar alphabet against a math/big affine model, plus Multiply(k) vs the literal k-fold Add chain. Complete for instance/alphabet, not a proof for all 2^256 scalars.",
            "small-scope argument for the step from F_q to F_p (formulas are uniform in the field; stand-in is contract-checked exhaustively); math/big; harness builds operands from raw limbs", "4/C01", MC),
    "C02": ("exhaustive enumeration of all ordered pairs of all projective representations on complete small-curve instances + alphabet pairs on the real curve",
            "Every ordered pair of every projective representation (incl. every (0:l:0)) of every element of the small curves is fed to the real Add/Subtract; Double/Negate/aliased/nil forms on every representation; oracle Z/N_q. Real curve: all ordered pairs of point alphabet x scalings against the affine chord-tangent law. Complete for the small instances (no exceptional pair can hide there), alphabet-complete on secp256k1 (scalings include raw-structured ones: Z whose stored limbs are a single 2^32 / 2^63 / 1). On the instrumented build the invariant 'argument bit-identical' is additionally evaluated at every function entry (transient writes), and the small instance is bound to the code by exhaustive stand-in contract checks, call-for-call trace conformance with the real build (37 scenarios) and replay of all q=13 transitions on secp256k1.",
            "small-scope argument F_q -> F_p; Fiat field arithmetic covered separately by C12", "4/C02", MC),
    "C03": ("exhaustive enumeration of byte strings over small fields + byte-string alphabet product on the real field, against the SEC1 acceptance predicate",
            "Small fields: all 256 prefixes x every x in [0,2q+2), every (x,y) in [0,2q)^2, every 1-byte string, other lengths; real field: lengths 0..70, 256 prefixes x coordinate alphabets incl. x+p / y+p aliases, window around p, off-curve and wrong-root cases; six decoders x two receivers; accept iff canonical, exact point, receiver unchanged on error, never panics.",
            "oracle = SEC1 predicate in math/big; complete for the alphabets only", "4/C03", MC),
    "C04": ("exhaustive enumeration of every projective representation (small curves) + representation alphabet (real curve) against an independent SEC1 encoder",
            "Every representation of every element of the small curves and point alphabet x 6 scalings on secp256k1: Encode/EncodeUncompressed/XCoordinate/Hex/MarshalBinary equal the oracle bytes (so the bytes cannot depend on the representation) and both Decode round trips give back the element.",
            "small-scope argument; math/big SEC1 encoder", "4/C04", MC),
    "C05": ("exhaustive enumeration of all ordered pairs of representations (small curves) + alphabet pairs (real curve)",
            "Equal on every ordered pair of every representation of the small curves (which contain same-x and same-y point pairs) and on point alphabet x scalings squared on secp256k1 (with P/-P, P/beta P/beta^2 P, all identity representations); IsIdentity on all.",
            "small-scope argument; abstract equality from the model", "4/C05", MC),
    "C06": ("bounded exhaustive enumeration of operand pairs from a boundary value alphabet, all aliasing shapes, against Z/nZ in math/big",
            "All ordered pairs of V_n (canonical- and Montgomery-structured limb products closed under negation and +-1) for Add/Subtract/Multiply in every aliasing shape; Square, Invert (incl. s*s^-1=1), Pow (exponent alphabet, nil, s.Pow(s)), SetUInt64, constants, nil operands; result must be the exact canonical representation.",
            "alphabet-complete, not a proof over n^2 pairs; Fiat carry chains are exercised at their boundaries only", "4/C06", MC),
    "C07": ("bounded exhaustive enumeration of byte strings (all lengths, limb products, full window around n) through every decoder",
            "Every string of the alphabet through Decode/UnmarshalBinary/DecodeHex (lower and upper case) with two prior receivers: accepted iff 32 bytes < n, exact value, distinct errors; Encode canonical and round trip for all of V_n and K; malformed hex rejected.",
            "alphabet-complete", "4/C07", MC),
    "C08": ("bounded exhaustive enumeration of (msg, DST) products against an independent RFC 9380 implementation validated on the RFC vectors",
            "All messages of length <= 1 (thorough: <= 2) x all 1-byte DSTs plus length alphabets around SHA-256 block boundaries and the 255-byte DST limit, for HashToGroup and EncodeToGroup; oracle = generic SSWU + rational isogeny + literal sum of two mapped points; the expander seam on the COMPLETE product of message lengths 0..520 x DST lengths 1..520 (1100 thorough) and the full functions along lines of it; all 2-step (and DST-varying 3-step) histories in which the caller rewrites one long-lived message/DST buffer between calls; determinism; empty-DST panic; branch classes counted for non-vacuity.",
            "SHA-256 from the standard library is shared by both sides; oracle self-checked against the ten J.8 vectors (u, Q, P)", "4/C08", MC),
    "C09": ("bounded exhaustive enumeration of (msg, DST) products and of 48-byte strings at the reduction seam",
            "HashToScalar on the (msg, DST) product and on the complete length product (msg 0..400 x DST 1..400; 1100 thorough) against OS2IP(expand(msg,DST,48)) mod n; buffer-reuse histories; the wide reduction on the 6-limb product of 48-byte strings and windows around multiples of n.",
            "alphabet-complete", "4/C09", MC),
    "C10": ("explicit-state search: closure sweep over every pool state of a small-curve instance (inductive invariant) + breadth-first reachability with concrete-state de-duplication",
            "Pool of 2 (and 3 for q=13) element variables over the small curves: EVERY tuple of valid representations is a start state and EVERY operation instance (all receiver/argument choices incl. the same variable) is applied by the real code; per transition: receiver == model in Z/N_q, non-receivers bit-identical, validity, Equal/IsIdentity matrix, copy independence, globals unchanged. The explored set is inductive, so all finite histories are covered for the instance; BFS from the initial pool reports reachable states and closure depth. On secp256k1: BFS over a pool of 2 element + 2 scalar variables with 122 operation instances (arithmetic with every receiver/argument choice, codecs, hashing, nil forms, failing decodes, CSelect), concrete-state de-duplication, depth 4 (5 thorough); every q=13 pool state replayed on the real curve.",
            "small-scope argument; scalar and hashing operations in histories are covered on the real curve by C01/C06/C08", "4/C10", MC),
    "C11": ("bounded exhaustive enumeration of a field-element alphabet incl. all three exceptional inputs against the generic RFC algorithms",
            "SSWU and the isogeny called directly on 0, +-sqrt(-1/Z), 1..2^11, p-2^11..p-1, limb products, V_p, RFC u values and negations; exact point, on E', sgn0(y)=sgn0(u); isogeny output on secp256k1 and equal to the rational map; isogeny alone on E' points with small x.",
            "alphabet-complete; the zero-denominator branch is unreachable from points of E'(F_p) (kernel abscissa not rational)", "4/C11", MC),
    "C12": ("bounded exhaustive enumeration of operand pairs / strings from boundary alphabets, all aliasing shapes, against F_p in math/big",
            "internal/field called directly: all ordered pairs of V_p for Add/Subtract/Multiply/CMove/Equals in aliasing shapes; unary operations aliased and not; SqrtRatio on V_p x slice; parser on limb products and the window around p; wide reduction on the 6-limb product.",
            "alphabet-complete; Fiat-Crypto's own proofs are neither re-checked nor assumed", "4/C12", MC),
    "C13": ("bounded exhaustive enumeration of scalar pairs and of a condition-word alphabet x aliasing shapes",
            "All ordered pairs of V_n for Equal/LessOrEqual (alphabet built so that Montgomery-limb order and integer order disagree on many pairs - counted); IsZero/IsOne; CSelect for 0,1,2,3, all 2^i, 2^i-1, ~2^i, masks x operand pairs x aliasing incl. nil.",
            "alphabet-complete (not all 2^64 words)", "4/C13", MC),
    "C14": ("bounded exhaustive enumeration of a scalar alphabet against a math/big reference model",
            "Every member of the scalar alphabet is expanded by the real Bits and compared bit by bit with the integer and with Encode.",
            "alphabet-complete", "4/C14", MC),
    "C15": ("exhaustive enumeration of API functions x argument alphabet x backing-array layouts with whole-buffer snapshots",
            "Every exported function with a byte-slice parameter x argument values x 40 layouts (offset, spare capacity, clipped/open capacity, two complementary fills): whole backing array unchanged; slice results fresh (no shared memory, overwrite over full capacity harmless); pointer operands bit-identical; globals unchanged (also against a baseline taken before the first call into the library). On the instrumented build the invariant 'all shared memory equals its snapshot' is evaluated at every function entry of every operation of the concurrency alphabet, so writes that are undone before the call returns are seen. A hostile-caller prelude overwrites every returned slice and mutates every returned object before the checks run. The function table is compared with the exported API parsed from the current tree.",
            "covers the listed layouts and values; writes of an identical value are caught by the complementary fill", "4/C15", MC),
    "C16": ("stateless model checking: own cooperative scheduler with preemption-bounded DFS over all interleavings at function-entry granularity - and, on trees whose library code synchronises, at every sync / atomic / channel operation and goroutine start, with blocking and deadlock modelled - + footprint enumeration + separate free-running -race pass",
            "All ordered pairs of a 32-operation alphabet (plus 3-thread and 2-ops-per-thread scenarios) on shared arguments with overlapping slices, incl. operations that overwrite the slices they were handed back: every schedule within the preemption bound (2 for short and medium operations, 1 for huge ones; thorough: 3 on a sub-alphabet, and every-function-entry granularity for medium operations) is executed on the instrumented build; every call must return what it returns alone, shared arguments and package-level variables unchanged; schedules are replayed for reproducibility. Accesses between scheduling points are covered by the happens-before race detector in a separate free-running pass over the same bodies, which also runs every pair (a,a), (a,a+1) as the very first use of the library in a fresh process (lazy initialisation). Footprint and watch parts evaluate 'no shared byte, no package-level variable written' after and during every operation.",
            "scheduling points are function entries and synchronisation operations, not individual memory accesses; select statements and range-over-channel loops of a changed tree are not owned (watchdog, exhaustive:false); memory-model effects below the Go memory model are out of scope", "4/C16", MC),
    "C17": ("enumeration of program configurations as plain binaries (3-class abstraction of all importing programs)",
            "Seven plain (non-test) programs are built against the current tree in an external module and each calls the three hashing functions; exit status 0 and oracle bytes expected: five link sets (registration of hashes is monotone in the link set, so the minimal program is the worst case) and two programs that register their own conformant-but-adversarial SHA-256 (only hash.Hash, Sum allocating, Write split) before resp. after the library's initialisation.",
            "abstraction argument: the property depends on the program only through crypto's hash registry", "4/C17", "exploration"),
    "C18": ("deviation-bounded exhaustive exploration of the entropy source (scripted crypto/rand.Reader)",
            "Every script of blocks over {0,1,n-1,n,n+1,2^255,2^256-1,pattern} up to the depth bound x 4 prior receiver values x 5 delivery modes x fault positions/kinds: result must be the first complete block with value mod n != 0, reduced, canonical, else a panic; a source polled forever after failing is reported.",
            "rand.Reader is an assignable package variable in the toolchain used; complete up to the depth bound", "4/C18", MC),
    "C19": ("exhaustive comparison of recorded field-operation traces over a bit-deviation-bounded scalar space (instrumented build)",
            "AST-instrumented copy of the current tree: for 4 fixed points (G, a re-scaled 2G, a non-canonical identity, the zero value of the Element type) the sequence of internal/field function entries during Multiply(k) must equal that of k=0 for every k within 1 (thorough 2) bit deviations of 0 and of n-1, 0..64 and the boundary alphabet; first divergence is reported.",
            "field-operation level only (not instruction-level or micro-architectural constant time); closures are not instrumented", "4/C19", MC),
}

NOT_YET = {}

# properties with a fault-history part (harness/checks/faulthist.go)
FAULT = {"C01", "C02", "C03", "C04", "C05", "C06", "C07", "C08", "C09", "C10", "C11", "C12", "C13", "C14", "C15", "C18"}

ALL = ["C%02d" % i for i in range(1, 20)]


def main():
    checks = []
    for pid in ALL:
        if pid not in CHECKS:
            continue
        tech, text, note, ref, cat = CHECKS[pid]
        if pid in FAULT:
            text += (" Fault histories (one goroutine per process): every sequence call / failing-or-unusual call / call "
                     "over a catalogue of concrete API calls incl. malformed inputs, recovered panics, nil receivers and "
                     "failing entropy; the last call's observation must be the model's whatever preceded it (thorough: "
                     "two failing calls in between).")
        checks.append({
            "property_id": pid,
            "quick_cmd": "bin/check %s --tier quick" % pid,
            "thorough_cmd": "bin/check %s --tier thorough" % pid,
            "evidence_file": "/verif/evidence/%s.json" % pid,
            "replay_cmd_template": "bin/check %s --replay {path}" % pid,
            "engine": "vcheck",
            "level_claimed": {"category": cat, "text": text, "design_ref": "DESIGN.md section " + ref},
            "level_note": note,
            "technique": tech,
        })
    na = [{"property_id": pid, "reason": NOT_YET.get(pid, "check not built yet (work in progress; see DESIGN.md section 9)")}
          for pid in ALL if pid not in CHECKS]
    m = {
        "version": 1,
        "setup_cmd": "bin/setup",
        "hooks": {
            "guard": "verif",
            "enable": "none needed: nothing is added to /repo; accessors, harness, stand-ins and instrumentation are "
                      "injected at build time with `go build -overlay` (tools/mkoverlay), from /repo's working tree",
            "baseline_off_cmd": "cd /repo && go test -mod=mod -vet=off -count=1 ./...",
            "source_commits": [],
            "add_only": True,
        },
        "engines": [{
            "name": "vcheck", "path": "/verif/bin/check",
            "serves_properties": sorted(CHECKS),
            "kind_free_text": "hand-written bounded exhaustive explorers in Go (product enumerator, explicit-state "
                              "search, deviation-bounded environment explorer, cooperative scheduler with "
                              "preemption-bounded DFS) compiled into the module under test through an overlay; "
                              "math/big reference models; python runner",
        }],
        "checks": checks,
        "not_applicable": na,
        "notes": "All checks rebuild from /repo's current working tree. Violations are keyed and filtered through "
                 "KNOWN_FINDINGS.txt (currently only `fixed:` lines, which suppress nothing).",
    }
    json.dump(m, open(os.path.join(VERIF, "MANIFEST.json"), "w"), indent=1)
    print("wrote MANIFEST.json with %d checks, %d not_applicable" % (len(checks), len(na)))


if __name__ == "__main__":
    main()
