#!/usr/bin/env python3
"""Writes /verif/MANIFEST.json from the table below (kept next to bin/check's PLAN)."""
import json
import os

VERIF = os.path.dirname(os.path.dirname(os.path.abspath(__file__)))

# id -> (technique, level text, level note, design ref, category)
CHECKS = {
    "C14": ("bounded exhaustive enumeration of a scalar alphabet against a math/big reference model",
            "Every member of the scalar alphabet (boundary values, all 2^i, 2^i+-1, n-1-2^i, limb products, "
            "Montgomery-structured values) is expanded by the real Bits and compared bit by bit with the integer; "
            "complete for the alphabet, silent outside it.",
            "math/big; raw scalar limbs are built by the harness (value * 2^256 mod n), not by the library",
            "4/C14", "model_checking"),
}

NOT_YET = {}

ALL = ["C%02d" % i for i in range(1, 20)]


def main():
    checks = []
    for pid in ALL:
        if pid not in CHECKS:
            continue
        tech, text, note, ref, cat = CHECKS[pid]
        checks.append({
            "property_id": pid,
            "quick_cmd": "bin/check %s --tier quick" % pid,
            "thorough_cmd": "bin/check %s --tier thorough" % pid,
            "evidence_file": "/verif/evidence/%s.json" % pid,
            "replay_cmd_template": "bin/check %s --replay {path}" % pid,
            "engine": "vcheck",
            "level_claimed": {"category": cat, "text": text, "design_ref": "DESIGN.md section " + ref},
            "level_note": note,
            "technique": tech,
        })
    na = [{"property_id": pid, "reason": NOT_YET.get(pid, "check not built yet (work in progress; see DESIGN.md section 9)")}
          for pid in ALL if pid not in CHECKS]
    m = {
        "version": 1,
        "setup_cmd": "bin/setup",
        "hooks": {
            "guard": "verif",
            "enable": "none needed: nothing is added to /repo; accessors, harness, stand-ins and instrumentation are "
                      "injected at build time with `go build -overlay` (tools/mkoverlay), from /repo's working tree",
            "baseline_off_cmd": "cd /repo && go test -mod=mod -vet=off -count=1 ./...",
            "source_commits": [],
            "add_only": True,
        },
        "engines": [{
            "name": "vcheck", "path": "/verif/bin/check",
            "serves_properties": sorted(CHECKS),
            "kind_free_text": "hand-written bounded exhaustive explorers in Go (product enumerator, explicit-state "
                              "search, deviation-bounded environment explorer, cooperative scheduler with "
                              "preemption-bounded DFS) compiled into the module under test through an overlay; "
                              "math/big reference models; python runner",
        }],
        "checks": checks,
        "not_applicable": na,
        "notes": "All checks rebuild from /repo's current working tree. Violations are keyed and filtered through "
                 "KNOWN_FINDINGS.txt (currently only `fixed:` lines, which suppress nothing).",
    }
    json.dump(m, open(os.path.join(VERIF, "MANIFEST.json"), "w"), indent=1)
    print("wrote MANIFEST.json with %d checks, %d not_applicable" % (len(checks), len(na)))


if __name__ == "__main__":
    main()
