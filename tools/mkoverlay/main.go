// mkoverlay writes the `go build -overlay` file for one build variant of bytemare/secp256k1.
//
// Nothing is written to the repository: the harness, the accessor files, the stand-ins and the instrumented
// copies are all mapped in through the overlay (DESIGN.md section 3.1).
//
//	mkoverlay -repo /repo [-src DIR] -verif /verif -variant real|small|instr|smallinstr|expfield|expscalar -out DIR
//
// -src names the tree the library sources are read from (default: -repo). It differs from -repo only when a
// patched scratch copy is checked (bin/selftest); overlay *targets* are always paths below -repo.
package main

import (
	"bytes"
	"crypto/sha256"
	"encoding/hex"
	"encoding/json"
	"flag"
	"fmt"
	"go/ast"
	"go/build"
	"go/format"
	"go/parser"
	"go/printer"
	"go/token"
	"os"
	"path/filepath"
	"reflect"
	"sort"
	"strconv"
	"strings"
)

const modPath = "github.com/bytemare/secp256k1"

type pkgInfo struct {
	dir  string // relative to repo root ("" for the root package)
	name string // package name
}

var pkgs = []pkgInfo{{"", "secp256k1"}, {"internal/field", "field"}, {"internal/scalar", "scalar"}}

func die(format string, a ...any) {
	fmt.Fprintf(os.Stderr, "mkoverlay: "+format+"\n", a...)
	os.Exit(2)
}

func main() {
	repo := flag.String("repo", "/repo", "repository root (overlay targets)")
	src := flag.String("src", "", "tree to read library sources from (default: repo)")
	verif := flag.String("verif", "/verif", "verification root")
	variant := flag.String("variant", "real", "build variant")
	out := flag.String("out", "", "output directory for generated files and overlay.json")
	flag.Parse()

	if *out == "" {
		die("-out is required")
	}

	if *src == "" {
		*src = *repo
	}

	if err := os.MkdirAll(*out, 0o755); err != nil {
		die("%v", err)
	}

	small, instr, expPkg, carryCov := false, false, "", false

	switch *variant {
	case "real":
	case "small":
		small = true
	case "instr":
		instr = true
	case "smallinstr":
		small, instr = true, true
	case "expfield":
		expPkg = "internal/field"
	case "expscalar":
		expPkg = "internal/scalar"
	case "carrycov":
		carryCov = true
	default:
		die("unknown variant %q", *variant)
	}

	// repl: overlay target (absolute path under repo) -> actual file ("" = deleted).
	repl := map[string]string{}
	// cur: for each of the three packages, file base name -> path whose content is compiled.
	cur := map[string]map[string]string{}

	for _, p := range pkgs {
		cur[p.dir] = map[string]string{}

		ents, err := os.ReadDir(filepath.Join(*src, p.dir))
		if err != nil {
			die("%v", err)
		}

		for _, e := range ents {
			n := e.Name()
			if e.IsDir() || !strings.HasSuffix(n, ".go") || strings.HasSuffix(n, "_test.go") {
				continue
			}

			cur[p.dir][n] = filepath.Join(*src, p.dir, n)
		}

		if *src != *repo {
			// files present in repo but not in src are deleted; others are redirected.
			rents, _ := os.ReadDir(filepath.Join(*repo, p.dir))
			for _, e := range rents {
				n := e.Name()
				if e.IsDir() || !strings.HasSuffix(n, ".go") || strings.HasSuffix(n, "_test.go") {
					continue
				}

				if _, ok := cur[p.dir][n]; !ok {
					repl[filepath.Join(*repo, p.dir, n)] = ""
				}
			}

			for n, path := range cur[p.dir] {
				repl[filepath.Join(*repo, p.dir, n)] = path
			}
		}
	}

	if *src != *repo {
		repl[filepath.Join(*repo, "go.mod")] = filepath.Join(*src, "go.mod")

		// packages other than the three known ones (a tree under test may add or drop internal packages): every
		// non-test Go file of the source tree is redirected, every one that only the repository has is deleted
		known := map[string]bool{}
		for _, p := range pkgs {
			known[p.dir] = true
		}

		walk := func(root string, f func(rel string)) {
			_ = filepath.Walk(root, func(path string, info os.FileInfo, err error) error {
				if err != nil {
					return nil
				}

				rel, _ := filepath.Rel(root, path)

				if info.IsDir() {
					if base := filepath.Base(path); path != root && (strings.HasPrefix(base, ".") || base == "testdata" || base == "tests" || rel == "internal/verif") {
						return filepath.SkipDir
					}

					return nil
				}

				if strings.HasSuffix(path, ".go") && !strings.HasSuffix(path, "_test.go") {
					d := filepath.Dir(rel)
					if d == "." {
						d = ""
					}

					if !known[d] {
						f(rel)
					}
				}

				return nil
			})
		}

		extra := map[string]bool{}
		walk(*src, func(rel string) {
			extra[rel] = true
			repl[filepath.Join(*repo, rel)] = filepath.Join(*src, rel)
		})
		walk(*repo, func(rel string) {
			if !extra[rel] {
				repl[filepath.Join(*repo, rel)] = ""
			}
		})
	}

	// ---- small-field stand-in -------------------------------------------------------------------------
	if small {
		ents, err := os.ReadDir(filepath.Join(*verif, "inject/smallfield"))
		if err != nil {
			die("%v", err)
		}

		// every file of internal/field that declares something the stand-in declares (the Element type, one of its
		// methods, New, the word helpers, the size constants) is taken out of the build - by content, not by file
		// name, so that a tree with reorganised files still gets its scaled-down instance
		standIn := map[string]bool{}

		for _, e := range ents {
			if strings.HasSuffix(e.Name(), ".go") {
				for n := range declaredNames(filepath.Join(*verif, "inject/smallfield", e.Name())) {
					standIn[n] = true
				}
			}
		}

		for _, n := range sortedKeys(cur["internal/field"]) {
			for name := range declaredNames(cur["internal/field"][n]) {
				if standIn[name] && name != "init" {
					delete(cur["internal/field"], n)
					repl[filepath.Join(*repo, "internal/field", n)] = ""

					break
				}
			}
		}

		for _, e := range ents {
			if !strings.HasSuffix(e.Name(), ".go") {
				continue
			}

			n := "verif_small_" + e.Name()
			cur["internal/field"][n] = filepath.Join(*verif, "inject/smallfield", e.Name())
			repl[filepath.Join(*repo, "internal/field", n)] = cur["internal/field"][n]
		}
	}

	// ---- exponent-domain variant ----------------------------------------------------------------------
	if expPkg != "" {
		// the file(s) that declare the top-level functions Mul and Square (one generated file in the pinned tree;
		// a reorganised tree may have them elsewhere): their declarations are renamed away, so that the
		// exponent-domain Mul / Square of inject/expdomain take their place under the unmodified chain sources
		found := 0

		for _, fn := range sortedKeys(cur[expPkg]) {
			path := cur[expPkg][fn]
			if !declaresFunc(path, "Mul") && !declaresFunc(path, "Square") {
				continue
			}

			gen := filepath.Join(*out, "exp_"+fn)
			if err := renameFuncs(path, gen, map[string]string{"Mul": "fiatMul", "Square": "fiatSquare"}); err != nil {
				die("exponent-domain copy of %s: %v", path, err)
			}

			cur[expPkg][fn] = gen
			repl[filepath.Join(*repo, expPkg, fn)] = gen
			found++
		}

		if found == 0 {
			fmt.Fprintf(os.Stderr, "mkoverlay: VARIANT-NOT-APPLICABLE no top-level Mul/Square in %s\n", expPkg)
			os.Exit(3)
		}

		pkgName := "field"
		if expPkg == "internal/scalar" {
			pkgName = "scalar"
		}

		b, err := os.ReadFile(filepath.Join(*verif, "inject/expdomain/expdomain.go.tmpl"))
		if err != nil {
			die("%v", err)
		}

		gen2 := filepath.Join(*out, "verif_expdomain.go")
		if err := os.WriteFile(gen2, bytes.ReplaceAll(b, []byte("PKGNAME"), []byte(pkgName)), 0o644); err != nil {
			die("%v", err)
		}

		cur[expPkg]["verif_expdomain.go"] = gen2
		repl[filepath.Join(*repo, expPkg, "verif_expdomain.go")] = gen2
	}

	// ---- further packages of the tree under test (added by a refactoring, say): their package-level state belongs
	// to "the package keeps no mutable global state" as well. Each gets a VerifGlobals accessor, and the root
	// package a generated verifExtraGlobals that concatenates them. Packages that import the root package (a
	// cycle), commands and the test package are left out.
	var extras []pkgInfo

	{
		known := map[string]bool{}
		for _, p := range pkgs {
			known[p.dir] = true
		}

		byDir := map[string]map[string]string{}

		_ = filepath.Walk(*src, func(path string, info os.FileInfo, err error) error {
			if err != nil {
				return nil
			}

			rel, _ := filepath.Rel(*src, path)

			if info.IsDir() {
				if base := filepath.Base(path); path != *src && (strings.HasPrefix(base, ".") || base == "testdata" || base == "tests" || rel == "internal/verif") {
					return filepath.SkipDir
				}

				return nil
			}

			d := filepath.Dir(rel)
			if d == "." || known[d] || !strings.HasSuffix(path, ".go") || strings.HasSuffix(path, "_test.go") {
				return nil
			}

			if ok, err := build.Default.MatchFile(filepath.Dir(path), filepath.Base(path)); err == nil && !ok {
				return nil
			}

			if byDir[d] == nil {
				byDir[d] = map[string]string{}
			}

			byDir[d][filepath.Base(path)] = path

			return nil
		})

		for _, d := range sortedDirs(byDir) {
			name, importsRoot := packageNameAndRootImport(byDir[d])
			if name == "" || name == "main" || importsRoot {
				continue
			}

			extras = append(extras, pkgInfo{d, name})
			cur[d] = byDir[d]
		}
	}

	var xb bytes.Buffer

	xb.WriteString("package secp256k1\n\n")

	for i, p := range extras {
		fmt.Fprintf(&xb, "import x%d %q\n", i, modPath+"/"+p.dir)
	}

	xb.WriteString("\n// verifExtraGlobals renders the package-level variables of the further packages of this tree. Generated by mkoverlay.\nfunc verifExtraGlobals() string {\n\ts := \"\"\n")

	for i, p := range extras {
		fmt.Fprintf(&xb, "\ts += \" %s{\" + x%d.VerifGlobals() + \"}\"\n", p.dir, i)
	}

	xb.WriteString("\n\treturn s\n}\n")

	genExtra := filepath.Join(*out, "verif_accessor_extra.go")
	if err := os.WriteFile(genExtra, xb.Bytes(), 0o644); err != nil {
		die("%v", err)
	}

	repl[filepath.Join(*repo, "verif_accessor_extra.go")] = genExtra

	for _, p := range extras {
		gen := filepath.Join(*out, "verif_accessor_x_"+strings.ReplaceAll(p.dir, "/", "_")+".go")

		if err := os.WriteFile(gen, accessorSource(p, packageVars(cur[p.dir]), *verif), 0o644); err != nil {
			die("%v", err)
		}

		repl[filepath.Join(*repo, p.dir, "verif_accessor.go")] = gen
	}

	// ---- accessors (generated from the package-level variables of the files actually compiled) ----------
	hasExpChain = !small && findMethod(cur["internal/field"], "expPMin3Div4")
	expanderLenType = findExpander(cur[""])
	if cp, ok := findCoordPaths(cur[""]); ok {
		coordPaths = cp
	}

	for _, p := range pkgs {
		vars := packageVars(cur[p.dir])
		gen := filepath.Join(*out, "verif_accessor_"+p.name+".go")

		if err := os.WriteFile(gen, accessorSource(p, vars, *verif), 0o644); err != nil {
			die("%v", err)
		}

		cur[p.dir]["verif_accessor.go"] = gen
		repl[filepath.Join(*repo, p.dir, "verif_accessor.go")] = gen
	}

	// ---- instrumentation ------------------------------------------------------------------------------
	var names []string

	if instr {
		for _, p := range pkgs {
			keys := sortedKeys(cur[p.dir])
			for _, n := range keys {
				path := cur[p.dir][n]
				gen := filepath.Join(*out, "instr_"+p.name+"_"+n)

				changed, err := instrument(path, gen, p.name, &names)
				if err != nil {
					die("instrument %s: %v", path, err)
				}

				if changed {
					cur[p.dir][n] = gen
					repl[filepath.Join(*repo, p.dir, n)] = gen
				}
			}
		}
	}

	// ---- carry coverage: record the value of every carry / borrow bit of the Fiat files ----------------------
	var covNames []string
	var covProp []int

	if carryCov {
		for _, fp := range []struct{ dir, pkg string }{{"internal/field", "field"}, {"internal/scalar", "scalar"}} {
			for _, fn := range sortedKeys(cur[fp.dir]) {
				path := cur[fp.dir][fn]

				b, err := os.ReadFile(path)
				if err != nil || !(bytes.Contains(b, []byte("bits.Add64(")) || bytes.Contains(b, []byte("bits.Sub64("))) || !declaresFunc(path, "") {
					continue
				}

				// only the generated arithmetic (functions Mul, Square, Add, ... with x<N> variables); hand-written
				// helpers that happen to use bits.Sub64 keep their own source
				if !declaresFunc(path, "Mul") && !declaresFunc(path, "Add") && !declaresFunc(path, "FromMontgomery") && !declaresFunc(path, "ToMontgomery") {
					continue
				}

				gen := filepath.Join(*out, "cov_"+fp.pkg+"_"+fn)
				if err := instrumentCarries(path, gen, fp.pkg, &covNames, &covProp); err != nil {
					die("carry instrumentation of %s: %v", path, err)
				}

				cur[fp.dir][fn] = gen
				repl[filepath.Join(*repo, fp.dir, fn)] = gen
			}
		}
	}

	// ---- verifrt (always present so that the harness compiles in every variant) --------------------------
	rtDir := filepath.Join(*repo, "internal/verif/verifrt")
	repl[filepath.Join(rtDir, "rt.go")] = filepath.Join(*verif, "inject/verifrt/rt.go")
	repl[filepath.Join(rtDir, "deep.go")] = filepath.Join(*verif, "inject/verifrt/deep.go")

	var nb bytes.Buffer

	nb.WriteString("package verifrt\n\n// Names maps function ids (arguments of Enter) to names. Generated by mkoverlay.\nvar Names = []string{\n")
	for _, n := range names {
		fmt.Fprintf(&nb, "\t%q,\n", n)
	}
	nb.WriteString("}\n\n// CovNames maps carry-coverage ids to function.variable names. Generated by mkoverlay.\nvar CovNames = []string{\n")
	for _, n := range covNames {
		fmt.Fprintf(&nb, "\t%q,\n", n)
	}
	nb.WriteString("}\n\n// CovPropSites lists the carry-coverage ids that have a non-constant carry-in. Generated by mkoverlay.\nvar CovPropSites = []int{")
	for _, n := range covProp {
		fmt.Fprintf(&nb, "%d, ", n)
	}
	nb.WriteString("}\n\n")
	fmt.Fprintf(&nb, "// Variant is the build variant this binary was made for.\nconst Variant = %q\n", *variant)

	genNames := filepath.Join(*out, "verifrt_names.go")
	if err := os.WriteFile(genNames, nb.Bytes(), 0o644); err != nil {
		die("%v", err)
	}

	repl[filepath.Join(rtDir, "names.go")] = genNames

	// ---- harness ----------------------------------------------------------------------------------------
	hroot := filepath.Join(*verif, "harness")

	err := filepath.Walk(hroot, func(path string, info os.FileInfo, err error) error {
		if err != nil {
			return err
		}

		if info.IsDir() || !strings.HasSuffix(path, ".go") {
			return nil
		}

		rel, _ := filepath.Rel(hroot, path)
		repl[filepath.Join(*repo, "internal/verif", rel)] = path

		return nil
	})
	if err != nil {
		die("%v", err)
	}

	// ---- source hashes (evidence) -------------------------------------------------------------------------
	hashes := map[string]string{}

	for _, p := range pkgs {
		for n, path := range cur[p.dir] {
			b, err := os.ReadFile(path)
			if err != nil {
				die("%v", err)
			}

			h := sha256.Sum256(b)
			hashes[filepath.Join(p.dir, n)] = hex.EncodeToString(h[:8])
		}
	}

	hb, _ := json.MarshalIndent(hashes, "", " ")
	if err := os.WriteFile(filepath.Join(*out, "sources.json"), hb, 0o644); err != nil {
		die("%v", err)
	}

	ob, _ := json.MarshalIndent(map[string]any{"Replace": repl}, "", " ")
	if err := os.WriteFile(filepath.Join(*out, "overlay.json"), ob, 0o644); err != nil {
		die("%v", err)
	}
}

func sortedDirs(m map[string]map[string]string) []string {
	keys := make([]string, 0, len(m))
	for k := range m {
		keys = append(keys, k)
	}

	sort.Strings(keys)

	return keys
}

// packageNameAndRootImport returns the package clause of the files and whether any of them imports the module's
// root package.
func packageNameAndRootImport(files map[string]string) (name string, importsRoot bool) {
	fset := token.NewFileSet()

	for _, n := range sortedKeys(files) {
		f, err := parser.ParseFile(fset, files[n], nil, parser.ImportsOnly)
		if err != nil {
			continue
		}

		name = f.Name.Name

		for _, im := range f.Imports {
			if p, _ := strconv.Unquote(im.Path.Value); p == modPath {
				importsRoot = true
			}
		}
	}

	return name, importsRoot
}

func sortedKeys(m map[string]string) []string {
	keys := make([]string, 0, len(m))
	for k := range m {
		keys = append(keys, k)
	}

	sort.Strings(keys)

	return keys
}

// packageVars returns the names of the package-level variables declared in the given files.
func packageVars(files map[string]string) []string {
	var vars []string

	fset := token.NewFileSet()

	for _, n := range sortedKeys(files) {
		// a file excluded by its build constraints (GOOS/GOARCH, release tags, custom tags) is not compiled into
		// the harness build: its variables do not exist there
		if ok, err := build.Default.MatchFile(filepath.Dir(files[n]), filepath.Base(files[n])); err == nil && !ok {
			continue
		}

		f, err := parser.ParseFile(fset, files[n], nil, parser.SkipObjectResolution)
		if err != nil {
			die("parse %s: %v", files[n], err)
		}

		for _, d := range f.Decls {
			gd, ok := d.(*ast.GenDecl)
			if !ok || gd.Tok != token.VAR {
				continue
			}

			for _, s := range gd.Specs {
				for _, id := range s.(*ast.ValueSpec).Names {
					if id.Name != "_" && !strings.HasPrefix(id.Name, "verif") {
						vars = append(vars, id.Name)
					}
				}
			}
		}
	}

	sort.Strings(vars)

	return vars
}

// coordPaths are the selector paths (relative to an *Element) of the three coordinates of type field.Element.
var coordPaths = [3]string{"x", "y", "z"}

// findCoordPaths locates the coordinates in `type Element struct`: fields of type field.Element, directly or inside
// fields whose type is a struct type declared in the same package (one or two levels). Fields named x, y, z (any
// case) are matched by name, otherwise the first three in declaration order are taken as X, Y, Z.
func findCoordPaths(files map[string]string) ([3]string, bool) {
	fset := token.NewFileSet()
	structs := map[string]*ast.StructType{}

	for _, n := range sortedKeys(files) {
		if ok, err := build.Default.MatchFile(filepath.Dir(files[n]), filepath.Base(files[n])); err == nil && !ok {
			continue
		}

		f, err := parser.ParseFile(fset, files[n], nil, parser.SkipObjectResolution)
		if err != nil {
			continue
		}

		for _, d := range f.Decls {
			gd, ok := d.(*ast.GenDecl)
			if !ok || gd.Tok != token.TYPE {
				continue
			}

			for _, sp := range gd.Specs {
				ts := sp.(*ast.TypeSpec)
				if st, ok := ts.Type.(*ast.StructType); ok {
					structs[ts.Name.Name] = st
				}
			}
		}
	}

	isFieldElement := func(e ast.Expr) bool {
		sel, ok := e.(*ast.SelectorExpr)
		if !ok || sel.Sel.Name != "Element" {
			return false
		}

		id, ok := sel.X.(*ast.Ident)

		return ok && id.Name == "field"
	}

	var paths []string

	var walk func(st *ast.StructType, prefix string, depth int)

	walk = func(st *ast.StructType, prefix string, depth int) {
		for _, fl := range st.Fields.List {
			names := fl.Names
			if len(names) == 0 { // embedded
				if id, ok := fl.Type.(*ast.Ident); ok {
					names = []*ast.Ident{id}
				}
			}

			for _, nm := range names {
				if nm.Name == "_" {
					continue
				}

				switch {
				case isFieldElement(fl.Type):
					paths = append(paths, prefix+nm.Name)
				case depth < 2:
					if id, ok := fl.Type.(*ast.Ident); ok {
						if inner, ok := structs[id.Name]; ok {
							walk(inner, prefix+nm.Name+".", depth+1)
						}
					}
				}
			}
		}
	}

	el, ok := structs["Element"]
	if !ok {
		return coordPaths, false
	}

	walk(el, "", 0)

	if len(paths) < 3 {
		return coordPaths, false
	}

	var out [3]string

	byName := 0

	for _, p := range paths {
		last := strings.ToLower(p[strings.LastIndex(p, ".")+1:])
		for i, want := range []string{"x", "y", "z"} {
			if last == want && out[i] == "" {
				out[i] = p
				byName++
			}
		}
	}

	if byName == 3 {
		return out, true
	}

	return [3]string{paths[0], paths[1], paths[2]}, true
}

// expanderLenType is the type of the length parameter of the root package's expandXMD, "" if there is no function
// of the shape expandXMD([]byte, []byte, <integer type>) []byte.
var expanderLenType string

func findExpander(files map[string]string) string {
	fset := token.NewFileSet()

	isBytes := func(e ast.Expr) bool {
		at, ok := e.(*ast.ArrayType)
		if !ok || at.Len != nil {
			return false
		}

		id, ok := at.Elt.(*ast.Ident)

		return ok && id.Name == "byte"
	}

	for _, n := range sortedKeys(files) {
		if ok, err := build.Default.MatchFile(filepath.Dir(files[n]), filepath.Base(files[n])); err == nil && !ok {
			continue
		}

		f, err := parser.ParseFile(fset, files[n], nil, parser.SkipObjectResolution)
		if err != nil {
			continue
		}

		for _, d := range f.Decls {
			fd, ok := d.(*ast.FuncDecl)
			if !ok || fd.Recv != nil || fd.Name.Name != "expandXMD" || fd.Type.Results == nil || len(fd.Type.Results.List) != 1 ||
				!isBytes(fd.Type.Results.List[0].Type) {
				continue
			}

			var types []ast.Expr

			for _, fl := range fd.Type.Params.List {
				k := len(fl.Names)
				if k == 0 {
					k = 1
				}

				for i := 0; i < k; i++ {
					types = append(types, fl.Type)
				}
			}

			if len(types) != 3 || !isBytes(types[0]) || !isBytes(types[1]) {
				continue
			}

			if id, ok := types[2].(*ast.Ident); ok {
				switch id.Name {
				case "uint", "int", "uint16", "uint32", "uint64", "int32", "int64", "uint8", "int16":
					return id.Name
				}
			}
		}
	}

	return ""
}

// hasExpChain is set when internal/field declares the method expPMin3Div4 (so that the accessor can expose it).
var hasExpChain bool

func findMethod(files map[string]string, name string) bool {
	fset := token.NewFileSet()

	for _, n := range sortedKeys(files) {
		if ok, err := build.Default.MatchFile(filepath.Dir(files[n]), filepath.Base(files[n])); err == nil && !ok {
			continue
		}

		f, err := parser.ParseFile(fset, files[n], nil, parser.SkipObjectResolution)
		if err != nil {
			continue
		}

		for _, d := range f.Decls {
			if fd, ok := d.(*ast.FuncDecl); ok && fd.Recv != nil && fd.Name.Name == name {
				return true
			}
		}
	}

	return false
}

func accessorSource(p pkgInfo, vars []string, verif string) []byte {
	var b bytes.Buffer

	if p.dir == "" {
		t, err := os.ReadFile(filepath.Join(verif, "inject/accessor_root.go.tmpl"))
		if err != nil {
			die("%v", err)
		}

		// the selector paths of the three projective coordinates inside Element, found in the tree under test
		// (x, y, z directly in the pinned tree; a refactoring may rename or nest them)
		ts := string(t)
		for i, ph := range []string{"@X@", "@Y@", "@Z@"} {
			ts = strings.ReplaceAll(ts, ph, coordPaths[i])
		}

		b.WriteString(ts)
	} else {
		fmt.Fprintf(&b, "package %s\n\nimport (\n\t\"fmt\"\n\n\t%q\n)\n", p.name, modPath+"/internal/verif/verifrt")
	}

	if p.dir == "" {
		// the private expander, if the tree has one of the expected shape expandXMD([]byte, []byte, <integer>) []byte;
		// a tree that restructures it loses only the direct expander sweep, not the checks through the exported API
		if t := expanderLenType; t != "" {
			b.WriteString("\n// VerifHasExpandXMD reports that the private expander is reachable.\nconst VerifHasExpandXMD = true\n")
			b.WriteString("\n// VerifExpandXMD calls the private expander.\n")
			fmt.Fprintf(&b, "func VerifExpandXMD(msg, dst []byte, length uint) []byte { return expandXMD(msg, dst, %s(length)) }\n", t)
		} else {
			b.WriteString("\n// VerifHasExpandXMD reports that this tree has no private expander of the expected shape.\nconst VerifHasExpandXMD = false\n")
			b.WriteString("\n// VerifExpandXMD is a stub.\nfunc VerifExpandXMD(msg, dst []byte, length uint) []byte { return nil }\n")
		}
	}

	if p.name == "field" && hasExpChain {
		b.WriteString("\n// VerifExpPMin3Div4 calls the private addition chain x^((p-3)/4).\n")
		b.WriteString("func VerifExpPMin3Div4(z, x *Element) *Element { return z.expPMin3Div4(x) }\n")
	}

	b.WriteString("\n// VerifGlobals renders every package-level variable of this package (generated from the current tree).\n")
	b.WriteString("func VerifGlobals() string {\n\ts := \"\"\n")

	for _, v := range vars {
		fmt.Fprintf(&b, "\ts += \"%s=\" + verifrt.Deep(&%s) + \";\"\n", v, v)
	}

	b.WriteString("\t_ = fmt.Sprint\n\t_ = verifrt.Deep\n\n\treturn s\n}\n\n")
	fmt.Fprintf(&b, "// VerifGlobalNames lists them.\nvar verifGlobalNames = %#v\n\n", vars)
	b.WriteString("// VerifGlobalNames returns the names of the package-level variables covered by VerifGlobals.\n")
	b.WriteString("func VerifGlobalNames() []string { return verifGlobalNames }\n")

	src, err := format.Source(b.Bytes())
	if err != nil {
		die("format accessor: %v\n%s", err, b.String())
	}

	return src
}

// instrument writes a copy of path in which every function with a body starts with verifrt.Enter(id).
func instrument(path, gen, pkgName string, names *[]string) (bool, error) {
	fset := token.NewFileSet()

	f, err := parser.ParseFile(fset, path, nil, parser.ParseComments|parser.SkipObjectResolution)
	if err != nil {
		return false, err
	}

	changed := false

	// synchronisation seam: the library's "sync" and "sync/atomic" become the shims of the harness (same local
	// name), its go statements become verifrt.Go - so that the cooperative scheduler owns them (DESIGN.md 10.2)
	for _, imp := range f.Imports {
		path, _ := strconv.Unquote(imp.Path.Value)
		shim, local := "", ""

		switch path {
		case "sync":
			shim, local = modPath+"/internal/verif/vsync", "sync"
		case "sync/atomic":
			shim, local = modPath+"/internal/verif/vatomic", "atomic"
		}

		if shim == "" || (imp.Name != nil && (imp.Name.Name == "_" || imp.Name.Name == ".")) {
			continue
		}

		if imp.Name == nil {
			imp.Name = ast.NewIdent(local)
		}

		imp.Path.Value = strconv.Quote(shim)
		changed = true
	}

	if rewriteChanOps(f) {
		changed = true
		f.Decls = append([]ast.Decl{&ast.GenDecl{Tok: token.IMPORT, Specs: []ast.Spec{&ast.ImportSpec{
			Name: ast.NewIdent("verifsync"), Path: &ast.BasicLit{Kind: token.STRING, Value: strconv.Quote(modPath + "/internal/verif/vsync")},
		}}}}, f.Decls...)
	}

	if rewriteGoStmts(f) {
		changed = true
	}

	for _, d := range f.Decls {
		fd, ok := d.(*ast.FuncDecl)
		if !ok || fd.Body == nil {
			continue
		}

		name := pkgName + "."
		if fd.Recv != nil && len(fd.Recv.List) == 1 {
			name += recvName(fd.Recv.List[0].Type) + "."
		}

		name += fd.Name.Name

		if strings.Contains(name, ".Verif") || strings.Contains(name, ".verif") {
			continue
		}

		id := len(*names)
		*names = append(*names, name)

		call := &ast.ExprStmt{X: &ast.CallExpr{
			Fun:  &ast.SelectorExpr{X: ast.NewIdent("verifrt"), Sel: ast.NewIdent("Enter")},
			Args: []ast.Expr{&ast.BasicLit{Kind: token.INT, Value: strconv.Itoa(id)}},
		}}
		fd.Body.List = append([]ast.Stmt{call}, fd.Body.List...)
		changed = true
	}

	if !changed {
		return false, nil
	}

	imp := &ast.GenDecl{Tok: token.IMPORT, Specs: []ast.Spec{&ast.ImportSpec{
		Path: &ast.BasicLit{Kind: token.STRING, Value: strconv.Quote(modPath + "/internal/verif/verifrt")},
	}}}
	f.Decls = append([]ast.Decl{imp}, f.Decls...)
	// (a file that only declares variables of sync types has no call into verifrt)
	f.Decls = append(f.Decls, &ast.GenDecl{Tok: token.VAR, Specs: []ast.Spec{&ast.ValueSpec{
		Names: []*ast.Ident{ast.NewIdent("_")}, Values: []ast.Expr{&ast.SelectorExpr{X: ast.NewIdent("verifrt"), Sel: ast.NewIdent("Enter")}},
	}}})

	var b bytes.Buffer
	// Comments are dropped from the printed copy: their positions would be wrong after the insertions, and
	// the copy is only ever compiled.
	f.Comments = nil
	if err := printer.Fprint(&b, fset, stripDocs(f)); err != nil {
		return false, err
	}

	return true, os.WriteFile(gen, b.Bytes(), 0o644)
}

// rewriteChanOps redirects channel sends, receives (plain and comma-ok) and close() outside the communication clauses
// of select statements to the shim functions verifsync.Send / Recv / Recv2 / Close (package vsync), so that the
// cooperative scheduler sees them. Range-over-channel loops and select statements stay as they are.
func rewriteChanOps(f *ast.File) bool {
	changed := false
	exprT := reflect.TypeOf((*ast.Expr)(nil)).Elem()
	stmtT := reflect.TypeOf((*ast.Stmt)(nil)).Elem()

	call := func(fn string, args ...ast.Expr) ast.Expr {
		changed = true
		return &ast.CallExpr{Fun: &ast.SelectorExpr{X: ast.NewIdent("verifsync"), Sel: ast.NewIdent(fn)}, Args: args}
	}

	arrow := func(e ast.Expr) *ast.UnaryExpr {
		for {
			p, ok := e.(*ast.ParenExpr)
			if !ok {
				break
			}

			e = p.X
		}

		if u, ok := e.(*ast.UnaryExpr); ok && u.Op == token.ARROW {
			return u
		}

		return nil
	}

	fixStmt := func(s ast.Stmt) ast.Stmt {
		switch st := s.(type) {
		case *ast.SendStmt:
			return &ast.ExprStmt{X: call("Send", st.Chan, st.Value)}
		case *ast.AssignStmt:
			if len(st.Lhs) == 2 && len(st.Rhs) == 1 {
				if u := arrow(st.Rhs[0]); u != nil {
					st.Rhs[0] = call("Recv2", u.X)
				}
			}
		case *ast.DeclStmt:
			if gd, ok := st.Decl.(*ast.GenDecl); ok && gd.Tok == token.VAR {
				for _, sp := range gd.Specs {
					if vs, ok := sp.(*ast.ValueSpec); ok && len(vs.Names) == 2 && len(vs.Values) == 1 {
						if u := arrow(vs.Values[0]); u != nil {
							vs.Values[0] = call("Recv2", u.X)
						}
					}
				}
			}
		}

		return s
	}

	var walk func(v reflect.Value)

	walk = func(v reflect.Value) {
		switch v.Kind() {
		case reflect.Interface:
			if v.IsNil() {
				return
			}

			switch {
			case v.Type() == stmtT && v.CanSet():
				v.Set(reflect.ValueOf(fixStmt(v.Interface().(ast.Stmt))))
			case v.Type() == exprT && v.CanSet():
				if u := arrow(v.Interface().(ast.Expr)); u != nil {
					v.Set(reflect.ValueOf(call("Recv", u.X)))
				}
			}

			walk(v.Elem())
		case reflect.Ptr:
			if v.IsNil() {
				return
			}

			switch n := v.Interface().(type) {
			case *ast.CommClause:
				walk(reflect.ValueOf(n.Body))
				return
			case *ast.Object, *ast.Scope:
				return
			case *ast.CallExpr:
				// close(ch) in any position (statement, defer, go)
				if id, ok := n.Fun.(*ast.Ident); ok && id.Name == "close" && len(n.Args) == 1 {
					n.Fun = &ast.SelectorExpr{X: ast.NewIdent("verifsync"), Sel: ast.NewIdent("Close")}
					changed = true
				}
			}

			walk(v.Elem())
		case reflect.Struct:
			for i := 0; i < v.NumField(); i++ {
				walk(v.Field(i))
			}
		case reflect.Slice:
			for i := 0; i < v.Len(); i++ {
				walk(v.Index(i))
			}
		}
	}

	walk(reflect.ValueOf(f.Decls))

	return changed
}

// rewriteGoStmts turns every `go f(a, b)` into `{ v0 := a; v1 := b; verifrt.Go(func() { f(v0, v1) }) }`: arguments
// are still evaluated by the spawning goroutine at the statement (arguments made of literals only stay in place, an
// untyped constant must not be given a default type), the call itself runs in the new goroutine.
func rewriteGoStmts(f *ast.File) bool {
	changed := false
	n := 0

	literalOnly := func(e ast.Expr) bool {
		lit := true

		ast.Inspect(e, func(x ast.Node) bool {
			switch v := x.(type) {
			case *ast.Ident:
				if v.Name != "nil" && v.Name != "true" && v.Name != "false" && v.Name != "iota" {
					lit = false
				}
			case *ast.FuncLit, *ast.CallExpr, *ast.CompositeLit:
				lit = false
			}

			return lit
		})

		return lit
	}

	conv := func(st ast.Stmt) ast.Stmt {
		g, ok := st.(*ast.GoStmt)
		if !ok {
			return st
		}

		changed = true
		var pre []ast.Stmt
		call := *g.Call
		call.Args = append([]ast.Expr{}, g.Call.Args...)

		for i, a := range call.Args {
			if literalOnly(a) {
				continue
			}

			v := ast.NewIdent(fmt.Sprintf("verifGoArg%d", n))
			n++
			pre = append(pre, &ast.AssignStmt{Lhs: []ast.Expr{v}, Tok: token.DEFINE, Rhs: []ast.Expr{a}})
			call.Args[i] = v
		}

		spawn := &ast.ExprStmt{X: &ast.CallExpr{
			Fun: &ast.SelectorExpr{X: ast.NewIdent("verifrt"), Sel: ast.NewIdent("Go")},
			Args: []ast.Expr{&ast.FuncLit{
				Type: &ast.FuncType{Params: &ast.FieldList{}},
				Body: &ast.BlockStmt{List: []ast.Stmt{&ast.ExprStmt{X: &call}}},
			}},
		}}

		return &ast.BlockStmt{List: append(pre, spawn)}
	}

	ast.Inspect(f, func(x ast.Node) bool {
		switch v := x.(type) {
		case *ast.BlockStmt:
			for i, st := range v.List {
				v.List[i] = conv(st)
			}
		case *ast.CaseClause:
			for i, st := range v.Body {
				v.Body[i] = conv(st)
			}
		case *ast.CommClause:
			for i, st := range v.Body {
				v.Body[i] = conv(st)
			}
		case *ast.LabeledStmt:
			v.Stmt = conv(v.Stmt)
		}

		return true
	})

	return changed
}

// instrumentCarries writes a copy of a Fiat file in which every `v, c = bits.Add64(...)` / `bits.Sub64(...)` is followed
// by verifrt.Cov(id, c): the harness then knows, for every carry and borrow bit of the generated arithmetic, whether
// its alphabets ever drove it to 0 and to 1.
func instrumentCarries(path, gen, pkgName string, names *[]string, propSites *[]int) error {
	fset := token.NewFileSet()

	f, err := parser.ParseFile(fset, path, nil, parser.SkipObjectResolution)
	if err != nil {
		return err
	}

	for _, d := range f.Decls {
		fd, ok := d.(*ast.FuncDecl)
		if !ok || fd.Body == nil {
			continue
		}

		var out []ast.Stmt

		for _, st := range fd.Body.List {
			out = append(out, st)

			as, ok := st.(*ast.AssignStmt)
			if !ok || len(as.Lhs) != 2 || len(as.Rhs) != 1 {
				continue
			}

			call, ok := as.Rhs[0].(*ast.CallExpr)
			if !ok {
				continue
			}

			sel, ok := call.Fun.(*ast.SelectorExpr)
			if !ok {
				continue
			}

			if x, ok := sel.X.(*ast.Ident); !ok || x.Name != "bits" || (sel.Sel.Name != "Add64" && sel.Sel.Name != "Sub64") {
				continue
			}

			c, ok := as.Lhs[1].(*ast.Ident)
			if !ok || c.Name == "_" {
				continue
			}

			id := len(*names)
			*names = append(*names, pkgName+"."+fd.Name.Name+"."+c.Name)
			out = append(out, &ast.ExprStmt{X: &ast.CallExpr{
				Fun:  &ast.SelectorExpr{X: ast.NewIdent("verifrt"), Sel: ast.NewIdent("Cov")},
				Args: []ast.Expr{&ast.BasicLit{Kind: token.INT, Value: strconv.Itoa(id)}, ast.NewIdent(c.Name)},
			}})

			// operands, for the "raised only by the carry-in" class; skipped where the carry-in is the constant 0
			if len(call.Args) == 3 && !isZeroLit(call.Args[2]) {
				fn := "CovAdd"
				if sel.Sel.Name == "Sub64" {
					fn = "CovSub"
				}

				*propSites = append(*propSites, id)
				out = append(out, &ast.ExprStmt{X: &ast.CallExpr{
					Fun:  &ast.SelectorExpr{X: ast.NewIdent("verifrt"), Sel: ast.NewIdent(fn)},
					Args: []ast.Expr{&ast.BasicLit{Kind: token.INT, Value: strconv.Itoa(id)}, call.Args[0], call.Args[1], call.Args[2]},
				}})
			}
		}

		fd.Body.List = out
	}

	imp := &ast.GenDecl{Tok: token.IMPORT, Specs: []ast.Spec{&ast.ImportSpec{
		Path: &ast.BasicLit{Kind: token.STRING, Value: strconv.Quote(modPath + "/internal/verif/verifrt")},
	}}}
	f.Decls = append([]ast.Decl{imp}, f.Decls...)
	f.Comments = nil

	var b bytes.Buffer
	if err := printer.Fprint(&b, fset, stripDocs(f)); err != nil {
		return err
	}

	return os.WriteFile(gen, b.Bytes(), 0o644)
}

// isZeroLit reports whether e is the literal 0, possibly wrapped in conversions such as uint64(0x0).
func isZeroLit(e ast.Expr) bool {
	for {
		switch x := e.(type) {
		case *ast.ParenExpr:
			e = x.X
		case *ast.CallExpr:
			if len(x.Args) != 1 {
				return false
			}

			e = x.Args[0]
		case *ast.BasicLit:
			v, err := strconv.ParseUint(x.Value, 0, 64)
			return err == nil && v == 0
		default:
			return false
		}
	}
}

func stripDocs(f *ast.File) *ast.File {
	f.Doc = nil

	for _, d := range f.Decls {
		switch x := d.(type) {
		case *ast.FuncDecl:
			x.Doc = nil
		case *ast.GenDecl:
			x.Doc = nil
			for _, s := range x.Specs {
				switch y := s.(type) {
				case *ast.ValueSpec:
					y.Doc, y.Comment = nil, nil
				case *ast.TypeSpec:
					y.Doc, y.Comment = nil, nil
				case *ast.ImportSpec:
					y.Doc, y.Comment = nil, nil
				}
			}
		}
	}

	return f
}

func recvName(e ast.Expr) string {
	switch x := e.(type) {
	case *ast.StarExpr:
		return recvName(x.X)
	case *ast.Ident:
		return x.Name
	case *ast.IndexExpr:
		return recvName(x.X)
	}

	return "?"
}

// declaredNames returns the top-level names a file declares: functions, methods as "Recv.Name", types, constants
// and variables.
func declaredNames(path string) map[string]bool {
	out := map[string]bool{}

	f, err := parser.ParseFile(token.NewFileSet(), path, nil, parser.SkipObjectResolution)
	if err != nil {
		return out
	}

	for _, d := range f.Decls {
		switch x := d.(type) {
		case *ast.FuncDecl:
			if x.Recv != nil && len(x.Recv.List) == 1 {
				out[recvName(x.Recv.List[0].Type)+"."+x.Name.Name] = true
			} else {
				out[x.Name.Name] = true
			}
		case *ast.GenDecl:
			for _, sp := range x.Specs {
				switch y := sp.(type) {
				case *ast.TypeSpec:
					out[y.Name.Name] = true
				case *ast.ValueSpec:
					for _, id := range y.Names {
						if id.Name != "_" {
							out[id.Name] = true
						}
					}
				}
			}
		}
	}

	return out
}

// declaresFunc reports whether the file declares a top-level function (not a method) of that name; with an empty
// name, whether it parses at all.
func declaresFunc(path, name string) bool {
	f, err := parser.ParseFile(token.NewFileSet(), path, nil, parser.SkipObjectResolution)
	if err != nil {
		return false
	}

	if name == "" {
		return true
	}

	for _, d := range f.Decls {
		if fd, ok := d.(*ast.FuncDecl); ok && fd.Recv == nil && fd.Name.Name == name {
			return true
		}
	}

	return false
}

// renameFuncs writes a copy of path in which the named top-level functions are renamed (declarations and all
// references inside that file).
func renameFuncs(path, gen string, ren map[string]string) error {
	fset := token.NewFileSet()

	f, err := parser.ParseFile(fset, path, nil, parser.SkipObjectResolution)
	if err != nil {
		return err
	}

	found := map[string]bool{}

	for _, d := range f.Decls {
		if fd, ok := d.(*ast.FuncDecl); ok && fd.Recv == nil {
			if _, ok := ren[fd.Name.Name]; ok {
				found[fd.Name.Name] = true
			}
		}
	}

	for k := range ren {
		if !found[k] {
			return fmt.Errorf("function %s not found in %s", k, path)
		}
	}

	// Only call positions and declarations of plain identifiers are renamed; selector fields are left alone.
	ast.Inspect(f, func(n ast.Node) bool {
		switch x := n.(type) {
		case *ast.SelectorExpr:
			ast.Inspect(x.X, func(m ast.Node) bool {
				if id, ok := m.(*ast.Ident); ok {
					if nn, ok := ren[id.Name]; ok {
						id.Name = nn
					}
				}

				return true
			})

			return false
		case *ast.Ident:
			if nn, ok := ren[x.Name]; ok {
				x.Name = nn
			}
		}

		return true
	})

	var b bytes.Buffer
	if err := printer.Fprint(&b, fset, stripDocs(f)); err != nil {
		return err
	}

	return os.WriteFile(gen, b.Bytes(), 0o644)
}
