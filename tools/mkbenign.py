#!/usr/bin/env python3
"""mkbenign.py <Bn> <task-file>: creates /tmp/benign/<Bn>/{wt,prompt.txt} for an independent agent that makes a
behaviour-preserving change. The prompt contains the nineteen property statements as the contract to keep and the
task text; nothing else from /verif."""
import json, os, subprocess, sys

bid, task = sys.argv[1], open(sys.argv[2]).read().strip()
d = f"/tmp/benign/{bid}"
os.makedirs(d, exist_ok=True)
if not os.path.isdir(d + "/wt"):
    subprocess.check_call(["git", "-C", "/repo", "worktree", "add", "--detach", d + "/wt", "HEAD"], stdout=subprocess.DEVNULL, stderr=subprocess.DEVNULL)
props = "\n\n".join("%s: %s\n%s" % (p["id"], p["title"], p["statement"]) for p in (json.loads(l) for l in open("/verif/properties.jsonl")))
text = f"""You are a maintainer of the Go library bytemare/secp256k1 (pure-Go secp256k1 group: Fiat-Crypto field/scalar arithmetic, complete projective addition, SEC1 point encodings, RFC 9380 hash-to-curve). You have your own scratch git worktree of it at:

    {d}/wt

Work ONLY inside that directory and {d}/ (never touch /repo or /verif, never look at /verif). The sandbox has no network. Every shell call that uses go must start with:

    export GOFLAGS=-mod=mod GOPROXY=off GOSUMDB=off GOTOOLCHAIN=local

The library's existing test suite is run with:  cd {d}/wt && go test -vet=off -count=1 ./...

Your task: make a REAL, NON-TRIVIAL but strictly BEHAVIOUR-PRESERVING change to the non-test source code (at least 60 changed lines), of this kind:

    {task}

The exported API (names, signatures, documented behaviour, error values and messages, panics) must stay exactly the same, the change must compile on GOARCH=amd64 and GOARCH=386, all existing tests must pass, and EVERY one of the following properties of the library must still hold after your change - they are the contract you must not break (read them carefully; take special care with concurrency: no mutable package-level state, no writes to arguments that are only read, fresh result buffers):

-----
{props}
-----

Be careful and test your change yourself (write throw-away tests comparing old and new behaviour on many inputs, including edge cases; run `go vet` and `go test -race`; do not leave those tests in the tree). Do NOT use `git stash`.

Deliverables (write exactly these files):
  {d}/patch.diff  - output of `git diff` (plus any new files: use `git add -N .` before `git diff` so that new files are included) in the worktree; it must apply with `patch -p1` to a clean checkout.
  {d}/notes.md    - 10-20 lines: what you changed and why you are confident that behaviour is preserved (what you compared, on which inputs).

Finish by leaving the worktree with your change applied. Report back a 5-line summary.
"""
open(d + "/prompt.txt", "w").write(text)
print(d)
