#!/usr/bin/env python3
"""Systematic first-order mutation analysis: every mutant produced by tools/mutate for the given files is
 (1) compiled, (2) run through the repository's own test suite, and - if it compiles and the tests still pass -
 (3) run through the checks of the properties anchored in that file, in scratch copies outside /repo and /verif.
 Output: one JSON line per mutant {file, line, desc, status, detected_by}. status is one of
 stillborn | killed_by_tests | detected | undetected | tool_error.

 usage: mutation_analysis.py --gen /tmp/mut/gen/<dir> [...] --out results.jsonl [--jobs 3] [--all-props]"""
import argparse, json, os, shutil, subprocess, sys, threading, queue

VERIF = os.path.dirname(os.path.dirname(os.path.abspath(__file__)))
ENV = dict(os.environ, GOFLAGS="-mod=mod", GOPROXY="off", GOSUMDB="off", GOTOOLCHAIN="local")
ALL = ["C%02d" % i for i in range(1, 20)]
PROPS = {  # first pass: the properties anchored in the file; survivors are re-run with --all-props
    "element.go": ["C02", "C05", "C04", "C03", "C01", "C10"],
    "scalar.go": ["C06", "C13", "C14", "C07", "C18"],
    "group.go": ["C09", "C08"],
    "xmd.go": ["C09", "C08", "C17"],
    "mapping.go": ["C11"],
    "internal/field/element.go": ["C12", "C11"],
    "internal/field/reduce.go": ["C12"],
    "internal/field/fe_invert.go": ["C12"],
    "internal/field/fe_expPMin3Div4.go": ["C12"],
    "internal/field/secp256k1montgomery.go": ["C12"],
    "internal/scalar/scalar.go": ["C07", "C06", "C13", "C09"],
    "internal/scalar/scalar_invert.go": ["C06"],
    "internal/scalar/secp256k1montgomeryscalar.go": ["C06", "C13", "C14"],
}


def sh(cmd, cwd=None, timeout=None):
    try:
        p = subprocess.run(cmd, cwd=cwd, env=ENV, stdout=subprocess.PIPE, stderr=subprocess.STDOUT, text=True, timeout=timeout)
        return p.returncode, p.stdout
    except subprocess.TimeoutExpired as e:
        return 124, (e.stdout or "") if isinstance(e.stdout, str) else ""


def worker(k, q, out, lock, all_props):
    scratch = "/tmp/mut/w%d" % k
    shutil.rmtree(scratch, ignore_errors=True)
    os.makedirs(scratch)
    subprocess.check_call("git -C /repo archive HEAD | tar -x -C %s" % scratch, shell=True)
    while True:
        try:
            m = q.get_nowait()
        except queue.Empty:
            break
        target = os.path.join(scratch, m["file"])
        orig = open(target, "rb").read()
        res = dict(file=m["file"], line=m["line"], desc=m["desc"], id=m["id"], status="", detected_by=None)
        try:
            shutil.copyfile(m["path"], target)
            rc, o = sh(["go", "build", "./..."], cwd=scratch, timeout=300)
            if rc != 0:
                res["status"] = "stillborn"
            else:
                rc, o = sh(["go", "test", "-vet=off", "-count=1", "-timeout", "120s", "./..."], cwd=scratch, timeout=400)
                if rc != 0:
                    res["status"] = "killed_by_tests"
                else:
                    props = list(PROPS.get(m["file"], ALL))
                    if all_props:
                        props += [p for p in ALL if p not in props]
                    res["status"] = "undetected"
                    for p in props:
                        rc, o = sh([os.path.join(VERIF, "bin/check"), p, "--no-evidence", "--src", scratch], cwd=VERIF, timeout=3600)
                        if "VIOLATION property=" in o:
                            res["status"], res["detected_by"] = "detected", p
                            break
                        if "TOOL-ERROR" in o or rc not in (0, 1):
                            res["status"], res["detected_by"] = "tool_error", p
                            res["detail"] = o[-600:]
                            break
        finally:
            open(target, "wb").write(orig)
        with lock:
            out.write(json.dumps(res) + "\n")
            out.flush()
    shutil.rmtree(scratch, ignore_errors=True)


def main():
    ap = argparse.ArgumentParser()
    ap.add_argument("--gen", nargs="+", required=True)
    ap.add_argument("--out", required=True)
    ap.add_argument("--jobs", type=int, default=3)
    ap.add_argument("--all-props", action="store_true")
    a = ap.parse_args()
    done = set()
    if os.path.exists(a.out):
        for l in open(a.out):
            d = json.loads(l)
            done.add((d["file"], d["id"]))
    q = queue.Queue()
    n = 0
    for g in a.gen:
        for m in json.load(open(os.path.join(g, "index.json"))):
            if (m["file"], m["id"]) not in done:
                q.put(m)
                n += 1
    print("mutants to run:", n, file=sys.stderr)
    lock = threading.Lock()
    with open(a.out, "a") as out:
        ts = [threading.Thread(target=worker, args=(k, q, out, lock, a.all_props)) for k in range(a.jobs)]
        for t in ts:
            t.start()
        for t in ts:
            t.join()


if __name__ == "__main__":
    main()
