module veriftools

go 1.22
