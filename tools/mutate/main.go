// Command mutate enumerates first-order syntactic mutants of a Go source file: operator replacements, integer
// literals +-1, dropped unary operators, negated conditions, swapped adjacent call arguments, deleted statements,
// carry-in arguments replaced by zero. Every mutant is written as a complete replacement file together with a
// one-line description. It is the generator behind tools/mutation_analysis.py (a systematic complement to the
// hand-written mutants and the independently seeded changes: every site of every operator, not a selection).
//
// usage: mutate -file path/to/file.go -out dir [-ops all|light]
package main

import (
	"bytes"
	"encoding/json"
	"flag"
	"fmt"
	"go/ast"
	"go/parser"
	"go/printer"
	"go/token"
	"os"
	"path/filepath"
	"strconv"
)

type mutant struct {
	ID   int    `json:"id"`
	File string `json:"file"`
	Line int    `json:"line"`
	Desc string `json:"desc"`
	Path string `json:"path"`
}

var binSwap = map[token.Token][]token.Token{
	token.ADD: {token.SUB}, token.SUB: {token.ADD}, token.MUL: {token.ADD},
	token.AND: {token.OR}, token.OR: {token.AND, token.XOR}, token.XOR: {token.OR, token.AND},
	token.SHL: {token.SHR}, token.SHR: {token.SHL}, token.AND_NOT: {token.AND},
	token.LSS: {token.LEQ, token.GEQ}, token.LEQ: {token.LSS}, token.GTR: {token.GEQ, token.LEQ}, token.GEQ: {token.GTR},
	token.EQL: {token.NEQ}, token.NEQ: {token.EQL}, token.LAND: {token.LOR}, token.LOR: {token.LAND},
}

var asgSwap = map[token.Token]token.Token{
	token.ADD_ASSIGN: token.SUB_ASSIGN, token.SUB_ASSIGN: token.ADD_ASSIGN, token.OR_ASSIGN: token.AND_ASSIGN,
	token.AND_ASSIGN: token.OR_ASSIGN, token.XOR_ASSIGN: token.OR_ASSIGN, token.SHL_ASSIGN: token.SHR_ASSIGN,
	token.SHR_ASSIGN: token.SHL_ASSIGN,
}

func main() {
	file := flag.String("file", "", "source file")
	out := flag.String("out", "", "output directory")
	ops := flag.String("ops", "all", "all | light (light: no argument swaps, no statement deletion)")
	rel := flag.String("rel", "", "path of the file relative to the repository root (recorded in the index)")
	flag.Parse()

	src, err := os.ReadFile(*file)
	if err != nil {
		panic(err)
	}

	if err := os.MkdirAll(*out, 0o755); err != nil {
		panic(err)
	}

	var index []mutant

	// every mutation is applied to a freshly parsed tree: find the i-th site, mutate it, print, restore
	count := func() int {
		fset := token.NewFileSet()
		f, _ := parser.ParseFile(fset, *file, src, parser.ParseComments)
		n := 0
		visit(f, fset, *ops, func(string, int, func()) { n++ })

		return n
	}()

	for i := 0; i < count; i++ {
		fset := token.NewFileSet()

		f, err := parser.ParseFile(fset, *file, src, parser.ParseComments)
		if err != nil {
			panic(err)
		}

		k := 0

		var desc string

		var line int

		visit(f, fset, *ops, func(d string, l int, apply func()) {
			if k == i {
				desc, line = d, l
				apply()
			}
			k++
		})

		var b bytes.Buffer
		if err := printer.Fprint(&b, fset, f); err != nil {
			continue
		}

		p := filepath.Join(*out, fmt.Sprintf("m%05d.go", i))
		if err := os.WriteFile(p, b.Bytes(), 0o644); err != nil {
			panic(err)
		}

		index = append(index, mutant{ID: i, File: *rel, Line: line, Desc: desc, Path: p})
	}

	ib, _ := json.MarshalIndent(index, "", " ")
	if err := os.WriteFile(filepath.Join(*out, "index.json"), ib, 0o644); err != nil {
		panic(err)
	}

	fmt.Printf("%s: %d mutants\n", *rel, len(index))
}

// visit calls site(description, line, apply) for every mutation site, in a deterministic order.
func visit(f *ast.File, fset *token.FileSet, ops string, site func(desc string, line int, apply func())) {
	ln := func(n ast.Node) int { return fset.Position(n.Pos()).Line }

	// statement deletion: calls, plain assignments and ++/-- (a deleted := would not compile)
	walkBlock := func(list *[]ast.Stmt) {
		for i, st := range *list {
			i, st := i, st

			switch y := st.(type) {
			case *ast.ExprStmt, *ast.IncDecStmt:
			case *ast.AssignStmt:
				if y.Tok == token.DEFINE {
					continue
				}
			default:
				continue
			}

			site("delete statement", ln(st), func() { (*list)[i] = &ast.EmptyStmt{Semicolon: st.Pos()} })
		}
	}

	ast.Inspect(f, func(n ast.Node) bool {
		switch x := n.(type) {
		case *ast.GenDecl:
			if x.Tok == token.IMPORT || x.Tok == token.TYPE {
				return false
			}
		case *ast.BinaryExpr:
			for _, alt := range binSwap[x.Op] {
				alt, old := alt, x.Op
				site(fmt.Sprintf("%s -> %s", old, alt), ln(x), func() { x.Op = alt })
			}
		case *ast.AssignStmt:
			if alt, ok := asgSwap[x.Tok]; ok {
				old := x.Tok
				site(fmt.Sprintf("%s -> %s", old, alt), ln(x), func() { x.Tok = alt })
			}
		case *ast.IncDecStmt:
			old := x.Tok
			alt := token.DEC
			if old == token.DEC {
				alt = token.INC
			}

			site(fmt.Sprintf("%s -> %s", old, alt), ln(x), func() { x.Tok = alt })
		case *ast.BasicLit:
			if x.Kind == token.INT {
				v, err := strconv.ParseUint(x.Value, 0, 64)
				if err == nil {
					old := x.Value
					if v < ^uint64(0) {
						site(fmt.Sprintf("literal %s + 1", old), ln(x), func() { x.Value = fmtLike(old, v+1) })
					}

					if v > 0 {
						site(fmt.Sprintf("literal %s - 1", old), ln(x), func() { x.Value = fmtLike(old, v-1) })
					}
				}
			}
		case *ast.UnaryExpr:
			if x.Op == token.NOT || x.Op == token.SUB || x.Op == token.XOR {
				old := x.Op
				site(fmt.Sprintf("drop unary %s", old), ln(x), func() { x.Op = token.ADD })
			}
		case *ast.IfStmt:
			site("negate if condition", ln(x), func() { x.Cond = &ast.UnaryExpr{Op: token.NOT, X: &ast.ParenExpr{X: x.Cond}} })
		case *ast.CallExpr:
			if ops == "all" {
				for i := 0; i+1 < len(x.Args); i++ {
					i := i
					if _, lit := x.Args[i].(*ast.BasicLit); lit {
						continue
					}

					if commutativeAt(x, i) {
						continue // operands of a commutative operation: an equivalent mutant by construction
					}

					site(fmt.Sprintf("swap call arguments %d and %d", i, i+1), ln(x), func() { x.Args[i], x.Args[i+1] = x.Args[i+1], x.Args[i] })
				}
			}

			// carry-in of bits.Add64 / bits.Sub64 replaced by zero
			if sel, ok := x.Fun.(*ast.SelectorExpr); ok && len(x.Args) == 3 {
				if id, ok := sel.X.(*ast.Ident); ok && id.Name == "bits" && (sel.Sel.Name == "Add64" || sel.Sel.Name == "Sub64") {
					if _, lit := x.Args[2].(*ast.BasicLit); !lit {
						site("carry-in replaced by 0", ln(x), func() { x.Args[2] = &ast.BasicLit{Kind: token.INT, Value: "0"} })
					}
				}
			}
		case *ast.BlockStmt:
			if ops == "all" {
				walkBlock(&x.List)
			}
		case *ast.CaseClause:
			if ops == "all" {
				walkBlock(&x.Body)
			}
		}

		return true
	})
}

// commutativeAt reports whether arguments i and i+1 of the call are the two operands of a commutative operation of
// this code base: z.Multiply(a, b), z.Add(a, b), Equals-style predicates, and the Fiat forms Mul(out, a, b),
// Add(out, a, b) and bits.Mul64(a, b).
func commutativeAt(c *ast.CallExpr, i int) bool {
	name := ""

	switch f := c.Fun.(type) {
	case *ast.SelectorExpr:
		name = f.Sel.Name
	case *ast.Ident:
		name = f.Name
	}

	switch name {
	case "Multiply", "Add", "Mul", "IsEqual", "Mul64":
		return (len(c.Args) == 2 && i == 0) || (len(c.Args) == 3 && i == 1)
	}

	return false
}

func fmtLike(old string, v uint64) string {
	if len(old) > 2 && (old[:2] == "0x" || old[:2] == "0X") {
		return "0x" + strconv.FormatUint(v, 16)
	}

	return strconv.FormatUint(v, 10)
}
