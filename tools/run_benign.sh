#!/bin/sh
# run_benign.sh <dir-with-patch.diff>: applies a behaviour-preserving change to a scratch copy and runs every check
# against it; any VIOLATION or TOOL-ERROR is a candidate false alarm (or the change is not as benign as claimed).
export GOFLAGS=-mod=mod GOPROXY=off GOSUMDB=off GOTOOLCHAIN=local
d=$(cd "$1" && pwd); id=$(basename "$d"); c=/tmp/benign-run-$$-$id
rm -rf "$c"; mkdir -p "$c"; (cd /repo && git archive HEAD | tar -x -C "$c")
(cd "$c" && patch -p1 -s -f < "$d/patch.diff") || { echo "$id: PATCH FAILED"; rm -rf "$c"; exit 1; }
(cd "$c" && go build ./... && go test -vet=off -count=1 ./... >/dev/null 2>&1) && echo "$id: repository tests pass" || echo "$id: REPOSITORY TESTS FAIL"
(cd "$c" && GOARCH=386 go build ./... ) || echo "$id: does not build for 386"
cd /verif
for p in C01 C02 C03 C04 C05 C06 C07 C08 C09 C10 C11 C12 C13 C14 C15 C16 C17 C18 C19; do
  out=$(bin/check $p --no-evidence --src "$c" 2>&1)
  if echo "$out" | grep -q "^VIOLATION\|^TOOL-ERROR"; then
    echo "$id: $p ALARM"; echo "$out" | grep -E "^  $p|^  C|^TOOL-ERROR" -A2 | cut -c1-400 | head -12
  else
    echo "$id: $p ok"
  fi
done
rm -rf "$c"
