#!/bin/sh
# Confirms a seeded change independently: applies <dir>/patch.diff to a scratch export of /repo HEAD (outside /repo
# and /verif), runs the repository's tests (must pass), then the demonstration with and without the change.
# usage: [CONFIRM_ENV='GOARCH=386'] tools/confirm_seed.sh <dir-with-patch.diff-and-demo_test.go>
# (CONFIRM_DEST=. : the demonstration belongs in the module root although its package clause does not say so)
# (CONFIRM_ENV: extra environment for the two runs of the demonstration, for platform-dependent changes)
export GOFLAGS=-mod=mod GOPROXY=off GOSUMDB=off GOTOOLCHAIN=local
d=$(cd "$1" && pwd); id=$(basename "$d"); c=/tmp/confirm-$$-$id
rm -rf "$c"; mkdir -p "$c"; (cd /repo && git archive HEAD | tar -x -C "$c")
dest=${CONFIRM_DEST:-tests}
case "$(grep -m1 '^package' "$d/demo_test.go")" in
  "package secp256k1") dest=. ;;
  "package field"|"package field_test") dest=internal/field ;;
  "package scalar"|"package scalar_test") dest=internal/scalar ;;
esac
(cd "$c" && patch -p1 -s -f < "$d/patch.diff") || { echo "$id: PATCH FAILED"; rm -rf "$c"; exit 1; }
t1=$(cd "$c" && go test -vet=off -count=1 ./... >/dev/null 2>&1 && echo pass || echo FAIL)
cp "$d/demo_test.go" "$c/$dest/zz_demo_test.go"
t2=$(cd "$c" && timeout 900 env $CONFIRM_ENV go test -vet=off -count=1 ./$dest/ >/dev/null 2>&1 && echo pass || echo FAIL)
(cd "$c" && patch -p1 -s -f -R < "$d/patch.diff")
t3=$(cd "$c" && timeout 900 env $CONFIRM_ENV go test -vet=off -count=1 ./$dest/ >/dev/null 2>&1 && echo pass || echo FAIL)
echo "$id: tests-with-change=$t1 demo-with-change=$t2 demo-without=$t3"
rm -rf "$c"
