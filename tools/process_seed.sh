#!/bin/sh
# process_seed.sh <ID-n> [extra-props,...]: confirm an independently seeded change, store it under seeded/, run the
# check(s) of its property against it, remove the scratch worktree. Prints DETECTED/MISSED per property.
s=$1; prop=${s%-*}; props=${2:-$prop}
cd /verif || exit 2
[ -f /tmp/seed/$s/patch.diff ] && [ -f /tmp/seed/$s/demo_test.go ] || { echo "$s: deliverables missing"; exit 1; }
out=$(tools/confirm_seed.sh /tmp/seed/$s); echo "$out"
case "$out" in *"tests-with-change=pass demo-with-change=FAIL demo-without=pass"*) ;; *) echo "$s: NOT CONFIRMED"; exit 1;; esac
mkdir -p seeded/$s && cp /tmp/seed/$s/patch.diff /tmp/seed/$s/demo_test.go seeded/$s/ && cp /tmp/seed/$s/notes.md seeded/$s/agent-notes.md 2>/dev/null
det=""
for p in $(echo $props | tr ',' ' '); do
  out=$(bin/check $p --no-evidence --mutant seeded/$s/patch.diff 2>&1)
  if echo "$out" | grep -q "^VIOLATION property=$p"; then echo "$s: $p DETECTED"; det="$det \"$p\",";
  elif echo "$out" | grep -q "^TOOL-ERROR"; then echo "$s: $p TOOL-ERROR (machinery failure, not a verdict)"; echo "$out" | grep -A3 "^TOOL-ERROR" | head -5;
  else echo "$s: $p MISSED"; fi
done
det=${det%,}
cat > seeded/$s/meta.json <<M
{
 "property": "$prop",
 "origin": "independent sub-agent given only the property text and a scratch worktree",
 "needs": "see agent-notes.md",
 "confirmed": "tools/confirm_seed.sh: applied to a scratch export of /repo HEAD: repository tests pass with the change; demo fails with it and passes without it",
 "detected_by": [$det ]
}
M
git -C /repo worktree remove --force /tmp/seed/$s/wt 2>/dev/null; git -C /repo worktree prune
