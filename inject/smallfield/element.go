// Small-field stand-in for the hand-written part of package field (element.go, reduce.go, fe_invert.go,
// fe_expPMin3Div4.go), substituted at build time through `go build -overlay` (DESIGN.md section 3.5).
//
// It implements the same API over F_q for a run-time chosen small prime q, so that the *unmodified* group code
// of the root package (element.go: complete addition, doubling, ladder, codecs) runs on the curve
// y^2 = x^3 + 7 over F_q, whose entire state space can be enumerated.
//
// Representation: the value v in [0, q) is stored as the limbs {v * 4294968273, 0, 0, 0}. 4294968273 is
// 2^256 mod p, so a Montgomery-domain literal of a small constant c written by the root package
// (b = 7 -> 30064777911, 3b = 21 -> 90194333733) decodes to c mod q. Any other limb pattern is decoded with the
// retained Fiat FromMontgomery and reduced mod q.
//
// Deliberately boring: every operation decodes, computes modulo q with uint64 arithmetic, and encodes.
package field

import (
	"math/big"
	"sync/atomic"
)

const (
	// SecLength is the security length dictating the input length for HashToFieldElement.
	SecLength = 48
	// ElementSize is the size of a field element in bytes.
	ElementSize = 32

	verifR = 4294968273 // 2^256 mod p
)

var (
	verifQ    uint64 = 13
	verifInv  []uint64
	verifSqrt []int64 // smaller square root, or -1
)

// VerifSetQ selects the prime q (q < 2^20) and rebuilds the inverse and square-root tables.
func VerifSetQ(q uint64) {
	if q < 5 || q >= 1<<20 {
		panic("smallfield: q out of range")
	}

	verifQ = q
	verifInv = make([]uint64, q)
	verifSqrt = make([]int64, q)

	for i := range verifSqrt {
		verifSqrt[i] = -1
	}

	for v := uint64(0); v < q; v++ {
		s := v * v % q
		if verifSqrt[s] < 0 {
			verifSqrt[s] = int64(v)
		}
	}

	for v := uint64(1); v < q; v++ {
		// Fermat
		r, b, e := uint64(1), v, q-2
		for e > 0 {
			if e&1 == 1 {
				r = r * b % q
			}

			b = b * b % q
			e >>= 1
		}

		verifInv[v] = r
	}
}

// VerifForeign counts the decodings of limbs that are not in the stand-in's own form (see VerifDec).
var VerifForeign atomic.Uint64

// VerifQ returns the current prime.
func VerifQ() uint64 { return verifQ }

// VerifEnc returns the limbs that represent v (reduced mod q).
func VerifEnc(v uint64) MontgomeryDomainFieldElement {
	return MontgomeryDomainFieldElement{(v % verifQ) * verifR, 0, 0, 0}
}

// VerifDec returns the value represented by the limbs, and whether the limbs are in the canonical small form.
func VerifDec(e *MontgomeryDomainFieldElement) (uint64, bool) {
	if e[1] == 0 && e[2] == 0 && e[3] == 0 && e[0]%verifR == 0 {
		v := e[0] / verifR
		return v % verifQ, v < verifQ
	}

	// limbs that no operation of this stand-in produces: a field literal of the tree under test (a constant of the
	// real curve) - counted, so that the harness can tell when the code it runs depends on such constants
	VerifForeign.Add(1)

	var nm NonMontgomeryDomainFieldElement

	FromMontgomery(&nm, e)

	var buf [32]byte

	for i := 0; i < 4; i++ {
		for j := 0; j < 8; j++ {
			buf[31-8*i-j] = byte(nm[i] >> (8 * j))
		}
	}

	v := new(big.Int).SetBytes(buf[:])

	return v.Mod(v, new(big.Int).SetUint64(verifQ)).Uint64(), false
}

func (e *Element) val() uint64 {
	v, _ := VerifDec(&e.E)
	return v
}

func (e *Element) put(v uint64) *Element {
	e.E = VerifEnc(v)
	return e
}

// An Element on the field.
type Element struct {
	E MontgomeryDomainFieldElement
}

// New returns a new, unset Element.
func New() *Element { return &Element{} }

// One sets the receiver to 1.
func (e *Element) One() *Element { return e.put(1) }

// Add sets e = u + v.
func (e *Element) Add(u, v *Element) *Element { return e.put(u.val() + v.val()) }

// Subtract sets e = u - v.
func (e *Element) Subtract(u, v *Element) *Element { return e.put(u.val() + verifQ - v.val()) }

// Multiply sets e = u * v.
func (e *Element) Multiply(u, v *Element) *Element { return e.put(u.val() * v.val()) }

// Negate sets e = -u.
func (e *Element) Negate(u *Element) *Element { return e.put(verifQ - u.val()) }

// Square sets e = u^2.
func (e *Element) Square(u *Element) *Element { return e.put(u.val() * u.val()) }

// Invert sets z = 1/x, and 0 for x = 0.
func (z *Element) Invert(x Element) *Element { return z.put(verifInv[x.val()]) }

// SqrtRatio sets e to a square root of u/v and returns 1 if u/v is a square (v != 0); otherwise e = 0 and 0 is returned.
func (e *Element) SqrtRatio(u, v *Element) (*Element, uint64) {
	w := u.val() * verifInv[v.val()] % verifQ
	if v.val() == 0 || verifSqrt[w] < 0 {
		return e.put(0), 0
	}

	return e.put(uint64(verifSqrt[w])), 1
}

// Sgn0 returns the parity of e.
func (e *Element) Sgn0() uint64 { return e.val() & 1 }

// CMove sets e to u if c == 0, and to v otherwise.
func (e *Element) CMove(c uint64, u, v *Element) *Element {
	if c == 0 {
		return e.put(u.val())
	}

	return e.put(v.val())
}

// IsZero returns 1 if e == 0, and 0 otherwise.
func (e *Element) IsZero() uint64 {
	if e.val() == 0 {
		return 1
	}

	return 0
}

// Set sets e to u.
func (e *Element) Set(u *Element) *Element { return e.put(u.val()) }

// Bytes returns the 32-byte big-endian representation of e.
func (e *Element) Bytes() []byte {
	out := make([]byte, ElementSize)
	v := e.val()

	for i := 0; i < 8; i++ {
		out[31-i] = byte(v >> (8 * i))
	}

	return out
}

// Equals returns 1 if e == u, and 0 otherwise.
func (e *Element) Equals(u *Element) uint64 {
	if e.val() == u.val() {
		return 1
	}

	return 0
}

// FromBytesWithReduce sets e to the input integer mod q and returns 1 iff the input was already < q.
func (e *Element) FromBytesWithReduce(input [ElementSize]byte) (*Element, uint64) {
	v := new(big.Int).SetBytes(input[:])
	q := new(big.Int).SetUint64(verifQ)
	reduced := uint64(0)

	if v.Cmp(q) < 0 {
		reduced = 1
	}

	return e.put(v.Mod(v, q).Uint64()), reduced
}

// FromBytesNoReduce sets e to input (mod q).
func (e *Element) FromBytesNoReduce(input []byte) *Element {
	v := new(big.Int).SetBytes(input)
	return e.put(v.Mod(v, new(big.Int).SetUint64(verifQ)).Uint64())
}

// HashToFieldElement sets e to the 48-byte integer mod q.
func (e *Element) HashToFieldElement(input [SecLength]byte) *Element { return e.FromBytesNoReduce(input[:]) }

// IsEqual returns 1 if u == v, and 0 otherwise.
func IsEqual(u, v uint64) uint64 { return IsZero(u ^ v) }

// IsZero returns 1 if u == 0, and 0 otherwise.
func IsZero(u uint64) uint64 {
	if u == 0 {
		return 1
	}

	return 0
}

// IsNonZero returns 1 if u != 0, and 0 otherwise.
func IsNonZero(u uint64) uint64 { return 1 - IsZero(u) }

func init() { VerifSetQ(13) }
