package verifrt

import (
	"fmt"
	"reflect"
	"sort"
	"strings"
)

// Deep renders the value p points to with everything reachable from it: pointers, slices, maps and interfaces are
// followed (unexported fields of foreign types included - reading them through reflection is allowed), so that a
// package-level variable that merely POINTS to mutable state (a buffered reader, a pool, a table behind a pointer)
// changes its rendering when that state changes. Addresses are rendered as well: a re-allocated object with the
// same content is still a change of the variable. Cycles are cut at the second visit, depth at 16.
func Deep(p any) string {
	var b strings.Builder

	v := reflect.ValueOf(p)
	if v.Kind() == reflect.Pointer && !v.IsNil() {
		v = v.Elem()
	}

	deep(&b, v, map[visit]bool{}, 0)

	return b.String()
}

type visit struct {
	p uintptr
	t reflect.Type
}

func deep(b *strings.Builder, v reflect.Value, seen map[visit]bool, depth int) {
	if depth > 16 {
		b.WriteString("...")
		return
	}

	switch v.Kind() {
	case reflect.Invalid:
		b.WriteString("nil")
	case reflect.Bool:
		fmt.Fprint(b, v.Bool())
	case reflect.Int, reflect.Int8, reflect.Int16, reflect.Int32, reflect.Int64:
		fmt.Fprint(b, v.Int())
	case reflect.Uint, reflect.Uint8, reflect.Uint16, reflect.Uint32, reflect.Uint64, reflect.Uintptr:
		fmt.Fprintf(b, "%x", v.Uint())
	case reflect.Float32, reflect.Float64:
		fmt.Fprint(b, v.Float())
	case reflect.Complex64, reflect.Complex128:
		fmt.Fprint(b, v.Complex())
	case reflect.String:
		fmt.Fprintf(b, "%q", v.String())
	case reflect.Pointer:
		if v.IsNil() {
			b.WriteString("nil")
			return
		}

		k := visit{v.Pointer(), v.Type()}
		fmt.Fprintf(b, "&%x", v.Pointer())

		if seen[k] {
			return
		}

		seen[k] = true

		b.WriteByte('{')
		deep(b, v.Elem(), seen, depth+1)
		b.WriteByte('}')
	case reflect.Interface:
		if v.IsNil() {
			b.WriteString("nil")
			return
		}

		fmt.Fprintf(b, "(%s)", v.Elem().Type())
		deep(b, v.Elem(), seen, depth+1)
	case reflect.Struct:
		b.WriteByte('{')

		for i := 0; i < v.NumField(); i++ {
			if i > 0 {
				b.WriteByte(' ')
			}

			b.WriteString(v.Type().Field(i).Name)
			b.WriteByte(':')
			deep(b, v.Field(i), seen, depth+1)
		}

		b.WriteByte('}')
	case reflect.Array:
		b.WriteByte('[')

		for i := 0; i < v.Len(); i++ {
			if i > 0 {
				b.WriteByte(' ')
			}

			deep(b, v.Index(i), seen, depth+1)
		}

		b.WriteByte(']')
	case reflect.Slice:
		if v.IsNil() {
			b.WriteString("nil")
			return
		}

		// the whole backing array up to the capacity belongs to the variable's state
		fmt.Fprintf(b, "&%x/%d/%d[", v.Pointer(), v.Len(), v.Cap())

		k := visit{v.Pointer(), v.Type()}
		if !seen[k] || v.Len() == 0 {
			seen[k] = true
			full := v.Slice(0, v.Cap())

			for i := 0; i < full.Len(); i++ {
				if i > 0 {
					b.WriteByte(' ')
				}

				deep(b, full.Index(i), seen, depth+1)
			}
		}

		b.WriteByte(']')
	case reflect.Map:
		if v.IsNil() {
			b.WriteString("nil")
			return
		}

		fmt.Fprintf(b, "map&%x[", v.Pointer())

		var items []string

		for it := v.MapRange(); it.Next(); {
			var kb, vb strings.Builder

			deep(&kb, it.Key(), seen, depth+1)
			deep(&vb, it.Value(), seen, depth+1)
			items = append(items, kb.String()+":"+vb.String())
		}

		sort.Strings(items)
		b.WriteString(strings.Join(items, " "))
		b.WriteByte(']')
	case reflect.Chan:
		fmt.Fprintf(b, "chan&%x/len%d", v.Pointer(), v.Len())
	case reflect.Func, reflect.UnsafePointer:
		fmt.Fprintf(b, "%s&%x", v.Kind(), v.Pointer())
	default:
		fmt.Fprintf(b, "?%s", v.Kind())
	}
}
