// Package verifrt is the run-time of instrumented builds: every instrumented function starts with Enter(id).
// It is mapped into the module by `go build -overlay`; it is not part of the repository.
package verifrt

// Hook, when non-nil, is called at every instrumented function entry. The harness sets it (trace recorder for
// C19 and the conformance checks, scheduling point for C16). It must only be changed while no instrumented code runs.
var Hook func(id int)

// Enter is the call inserted at the start of every function of the three packages.
func Enter(id int) {
	if h := Hook; h != nil {
		h(id)
	}
}
