// Package verifrt is the run-time of instrumented builds: every instrumented function starts with Enter(id).
// It is mapped into the module by `go build -overlay`; it is not part of the repository.
package verifrt

import "sync/atomic"

// Hook, when non-nil, is called at every instrumented function entry. The harness sets it (trace recorder for
// C19 and the conformance checks, scheduling point for C16). It must only be changed while no instrumented code runs.
var Hook func(id int)

// Carry coverage (build variant "carrycov"): CovHit0[id] / CovHit1[id] become 1 once the carry or borrow bit with
// that id has been seen with value 0 / 1. Concurrent writers only ever store the same value.
var CovHit0, CovHit1 []uint32

// Cov is the call inserted after every bits.Add64 / bits.Sub64 of the Fiat files in the carrycov variant.
func Cov(id int, v uint64) {
	if v == 0 {
		CovHit0[id] = 1
	} else {
		CovHit1[id] = 1
	}
}

// CovProp[id] becomes 1 once the carry (borrow) with that id was raised *only because of* its carry-in: the two
// operands alone sum to exactly 2^64-1 (are equal) and the incoming carry (borrow) is 1. This is the case a folded
// or re-associated carry chain gets wrong while every other case stays right.
var CovProp []uint32

// CovAdd / CovSub are inserted next to Cov with the operands of the addition / subtraction.
func CovAdd(id int, a, b, cin uint64) {
	if a+b == ^uint64(0) && cin == 1 {
		CovProp[id] = 1
	}
}

func CovSub(id int, a, b, bin uint64) {
	if a == b && bin == 1 {
		CovProp[id] = 1
	}
}

func init() {
	CovHit0 = make([]uint32, len(CovNames))
	CovHit1 = make([]uint32, len(CovNames))
	CovProp = make([]uint32, len(CovNames))
}

// Enter is the call inserted at the start of every function of the three packages.
func Enter(id int) {
	if h := Hook; h != nil {
		h(id)
	}
}

// ---- synchronisation seam (instrumented builds) -----------------------------------------------------------------
// In the instrumented variants the library's imports of "sync" and "sync/atomic" are redirected to the shims
// internal/verif/vsync and internal/verif/vatomic, and its `go` statements to Go below. While a controlled execution
// of the cooperative scheduler is running (SyncPre != nil) every synchronisation operation is a scheduling point,
// blocking is visible to the scheduler (a thread that cannot proceed calls Block and is re-polled after another
// thread changed synchronisation state) and goroutines started by the library are threads of the scheduler.
// Outside controlled executions the shims behave like the real packages.
var (
	SyncPre   func(kind int) // before a synchronisation operation (scheduling point)
	SyncPost  func()         // after an operation that may have changed what other threads wait for
	BlockHook func()         // the calling thread cannot proceed; returns when it should poll again
	GoHook    func(f func()) // the library starts a goroutine
)

// Controlled reports whether a controlled execution is running.
func Controlled() bool { return SyncPre != nil }

// Pre is called by the shims before every synchronisation operation.
func Pre(kind int) {
	if h := SyncPre; h != nil {
		h(kind)
	}
}

// Post is called by the shims after every state-changing synchronisation operation.
func Post() {
	if h := SyncPost; h != nil {
		h()
	}
}

// Block is called by the shims when the calling thread has to wait; false if nobody controls the execution.
func Block() bool {
	if h := BlockHook; h != nil {
		h()
		return true
	}

	return false
}

// GoCount counts the goroutines the library has started (read by the trace recorders: a trace that contains a
// goroutine start is only deterministic under the cooperative scheduler).
var GoCount atomic.Int64

// Go replaces the library's `go` statements.
func Go(f func()) {
	GoCount.Add(1)

	if h := GoHook; h != nil {
		h(f)
		return
	}

	GoLive.Add(1)

	go func() {
		defer GoLive.Add(-1)
		f()
	}()
}

// GoLive counts goroutines of the library that were started OUTSIDE a controlled execution and are still running:
// workers started by an init function or lazily by an earlier call. While one exists, no cooperative execution owns
// everything that runs library code (its function entries would reach the scheduler from a goroutine that is not one
// of its threads), so the scheduler exploration and the scheduled traces declare themselves not applicable.
var GoLive atomic.Int64
