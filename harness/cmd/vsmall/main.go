// Command vsmall runs the checks of the scaled-down instance (build variant "small").
package main

import (
	"fmt"
	"os"

	"github.com/bytemare/secp256k1/internal/verif/ev"
	"github.com/bytemare/secp256k1/internal/verif/prelude"
	"github.com/bytemare/secp256k1/internal/verif/smallchk"
	"github.com/bytemare/secp256k1/internal/verif/verifrt"
)

func main() {
	if len(os.Args) < 2 {
		fmt.Fprintln(os.Stderr, "usage: vsmall <part> | replay <property> <file>")
		os.Exit(2)
	}

	if verifrt.Variant != "small" && verifrt.Variant != "smallinstr" {
		fmt.Fprintln(os.Stderr, "TOOL-ERROR: vsmall must be built in the small-field variant, not", verifrt.Variant)
		os.Exit(2)
	}

	prelude.HostileCaller()

	if os.Args[1] == "replay" {
		os.Exit(smallchk.Replay(os.Args[2], os.Args[3]))
	}

	part, ok := smallchk.Parts[os.Args[1]]
	if !ok {
		fmt.Fprintln(os.Stderr, "unknown part", os.Args[1])
		os.Exit(2)
	}

	r := ev.New(part.Property, os.Args[1], verifrt.Variant)
	part.Run(r)
	os.Exit(r.Finish())
}
