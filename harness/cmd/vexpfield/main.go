// Command vexpfield runs the two addition chains of internal/field in the exponent domain (variant "expfield").
package main

import (
	"fmt"
	"math/big"
	"os"

	"github.com/bytemare/secp256k1/internal/field"
	"github.com/bytemare/secp256k1/internal/verif/ev"
	"github.com/bytemare/secp256k1/internal/verif/ref"
	"github.com/bytemare/secp256k1/internal/verif/verifrt"
)

func main() {
	r := ev.New("C12", "C12chains", verifrt.Variant)

	if verifrt.Variant != "expfield" {
		r.ToolError("vexpfield must be built in variant expfield")
		os.Exit(r.Finish())
	}

	r.Rule("exponent-domain run: the Fiat Mul/Square of internal/field are replaced by exponent addition/doubling and the UNMODIFIED addition-chain sources fe_invert.go and fe_expPMin3Div4.go are executed from the exponent 1; the chain has a single control path, so this one run covers it completely; the final exponent must be p-2 resp. (p-3)/4 (with Mul/Square checked on the alphabet by the main part, this extends Invert/SqrtRatio to every operand by Fermat's little theorem)")

	one := big.NewInt(1)
	mod := new(big.Int).Lsh(big.NewInt(1), 256)
	chains := []struct {
		name string
		want *big.Int
		run  func(z, x *field.Element)
	}{
		{"Invert", new(big.Int).Sub(ref.P, big.NewInt(2)), func(z, x *field.Element) { z.Invert(*x) }},
		{"expPMin3Div4", new(big.Int).Rsh(new(big.Int).Sub(ref.P, big.NewInt(3)), 2), func(z, x *field.Element) { field.VerifExpPMin3Div4(z, x) }},
	}

	for _, c := range chains {
		for _, alias := range []bool{false, true} {
			x := &field.Element{E: field.MontgomeryDomainFieldElement{1, 0, 0, 0}}
			z := &field.Element{E: field.MontgomeryDomainFieldElement{5, 6, 7, 8}}

			if alias {
				// Only Invert takes its operand by value and is therefore specified for z == x; the private chain
				// expPMin3Div4 is only ever called on a fresh receiver, and aliasing it is outside the property.
				if c.name != "Invert" {
					continue
				}

				z = x
			}

			field.VerifExpReset()
			c.run(z, x)
			muls, squares, over := field.VerifExpCounts()
			got := ref.FromLimbs([4]uint64(z.E))

			r.States.Add(int64(muls + squares + 1))
			r.Transitions.Add(int64(muls + squares))
			r.Evals.Add(1)
			r.Distinct.Add(1)
			r.Bound(fmt.Sprintf("%s_multiplications", c.name), muls)
			r.Bound(fmt.Sprintf("%s_squarings", c.name), squares)

			// Applicability (see vexpscalar): a Mul/Square chain maps the start exponent e to E*e mod 2^256.
			linear := muls+squares > 0

			for _, e := range []uint64{2, 3} {
				xe := &field.Element{E: field.MontgomeryDomainFieldElement{e, 0, 0, 0}}
				ze := &field.Element{E: field.MontgomeryDomainFieldElement{5, 6, 7, 8}}

				if alias {
					ze = xe
				}

				c.run(ze, xe)

				w := new(big.Int).Mul(got, new(big.Int).SetUint64(e))
				if ref.FromLimbs([4]uint64(ze.E)).Cmp(w.Mod(w, mod)) != 0 {
					linear = false
				}
			}

			if !linear {
				r.Incomplete("field." + c.name + " of this tree is not a chain of Mul/Square calls (the exponent-domain run is not linear in the start exponent): the exponent-domain argument does not apply to it and this part decides nothing about it")
				continue
			}

			if got.Cmp(c.want) != 0 || over != 0 {
				r.Violation("field."+c.name+"/addition-chain-computes-wrong-exponent", fmt.Sprintf("alias=%v: chain computes x^%x (overflows %d), want x^%x", alias, got, over, c.want), map[string]string{"op": "chain", "name": c.name})
			}
		}
	}

	_ = one
	r.Sample(map[string]string{"op": "chain", "name": "Invert", "expected_exponent": "p-2"})
	r.Sample(map[string]string{"op": "chain", "name": "expPMin3Div4", "expected_exponent": "(p-3)/4"})
	os.Exit(r.Finish())
}
