// Command vcarry (build variant "carrycov") measures how well the value alphabets drive the Fiat-generated arithmetic:
// every carry and borrow bit of internal/field and internal/scalar is recorded while the C12 resp. C06 sweep runs,
// and the bits never seen as 1 (or as 0) are listed. A carry that an alphabet never raises is a carry whose loss the
// sweep cannot notice; the list is what the alphabets are extended from.
package main

import (
	"fmt"
	"os"
	"sort"
	"strings"

	"github.com/bytemare/secp256k1/internal/verif/checks"
	"github.com/bytemare/secp256k1/internal/verif/ev"
	"github.com/bytemare/secp256k1/internal/verif/prelude"
	"github.com/bytemare/secp256k1/internal/verif/verifrt"
)

func main() {
	if len(os.Args) < 2 {
		fmt.Fprintln(os.Stderr, "usage: vcarry C12carry|C06carry")
		os.Exit(2)
	}

	prelude.HostileCaller()

	prop, pkg, sweep := "C12", "field.", checks.C12
	if strings.HasPrefix(os.Args[1], "C06") {
		prop, pkg, sweep = "C06", "scalar.", checks.C06
	}

	r := ev.New(prop, os.Args[1], verifrt.Variant)

	if verifrt.Variant != "carrycov" || len(verifrt.CovNames) == 0 {
		r.ToolError("vcarry must be built in variant carrycov")
		os.Exit(r.Finish())
	}

	// reset what the prelude touched, then run the sweep into a scratch report
	for i := range verifrt.CovHit0 {
		verifrt.CovHit0[i], verifrt.CovHit1[i], verifrt.CovProp[i] = 0, 0, 0
	}

	// the sweep runs at its quick depth under the instrumentation (the thorough value alphabets raise the same
	// carries: measured 223/254 and 118/190 against 223/254 and 116/190, at twenty times the cost)
	os.Setenv("VERIF_TIER", "quick")

	scratch := ev.New(prop, "scratch", verifrt.Variant)
	sweep(scratch)
	os.Setenv("VERIF_TIER", "thorough")

	if scratch.NViolations() > 0 {
		r.Note("the sweep itself reported violations; see the main part")
	}

	perFunc := map[string][3]int{} // sites, both, one-sided

	var never1, never0 []string

	for id, name := range verifrt.CovNames {
		if !strings.HasPrefix(name, pkg) {
			continue
		}

		fn := name[:strings.LastIndex(name, ".")]
		c := perFunc[fn]
		c[0]++

		h0, h1 := verifrt.CovHit0[id] == 1, verifrt.CovHit1[id] == 1

		switch {
		case h0 && h1:
			c[1]++
		case h0 && !h1:
			c[2]++
			never1 = append(never1, name)
		case h1 && !h0:
			c[2]++
			never0 = append(never0, name)
		}

		perFunc[fn] = c
	}

	var fns []string
	for fn := range perFunc {
		fns = append(fns, fn)
	}

	sort.Strings(fns)

	total, both := 0, 0

	for _, fn := range fns {
		c := perFunc[fn]
		total += c[0]
		both += c[1]
		r.Bound("carry_bits_seen_both_ways["+fn+"]", fmt.Sprintf("%d of %d", c[1], c[0]))
	}

	r.Rule("carry coverage of the Fiat arithmetic under the value-alphabet sweep: every bits.Add64 / bits.Sub64 carry or borrow bit is recorded; reported: how many were seen both as 0 and as 1, and which were never raised (a carry that is never raised is either structurally zero or a blind spot of the alphabet)")
	r.States.Add(int64(total))
	r.Transitions.Add(scratch.Transitions.Load())
	r.Evals.Add(int64(total))
	r.Distinct.Add(int64(both))
	var neverProp []string

	nProp, seenProp := 0, 0

	for _, id := range verifrt.CovPropSites {
		if !strings.HasPrefix(verifrt.CovNames[id], pkg) {
			continue
		}

		nProp++

		if verifrt.CovProp[id] == 1 {
			seenProp++
		} else {
			neverProp = append(neverProp, verifrt.CovNames[id])
		}
	}

	r.Bound("carries_with_carry_in", nProp)
	r.Bound("carries_seen_raised_by_carry_in_alone", seenProp)
	r.Note("carries never seen raised by their carry-in alone (operands sum to 2^64-1 resp. are equal, carry-in 1): %v", neverProp)
	fmt.Fprintf(os.Stderr, "propagation coverage %s: %d of %d; never: %v\n", pkg, seenProp, nProp, neverProp)
	r.Note("carry/borrow bits never seen as 1: %v", never1)
	r.Note("carry/borrow bits never seen as 0: %v", never0)
	r.Sample(map[string]any{"carry_sites": total, "seen_both_ways": both, "never_1": len(never1), "never_0": len(never0)})
	fmt.Fprintf(os.Stderr, "carry coverage %s: %d of %d seen both ways; never 1: %v; never 0: %v\n", pkg, both, total, never1, never0)
	os.Exit(r.Finish())
}
