// Command vexpscalar runs the scalar inversion chain in the exponent domain (variant "expscalar").
package main

import (
	"fmt"
	"math/big"
	"os"

	"github.com/bytemare/secp256k1/internal/scalar"
	"github.com/bytemare/secp256k1/internal/verif/ev"
	"github.com/bytemare/secp256k1/internal/verif/ref"
	"github.com/bytemare/secp256k1/internal/verif/verifrt"
)

func main() {
	r := ev.New("C06", "C06chain", verifrt.Variant)

	if verifrt.Variant != "expscalar" {
		r.ToolError("vexpscalar must be built in variant expscalar")
		os.Exit(r.Finish())
	}

	r.Rule("exponent-domain run: the Fiat Mul/Square of internal/scalar are replaced by exponent addition/doubling and the UNMODIFIED scalar_invert.go is executed from the exponent 1 (single control path, covered completely by one run); the final exponent must be n-2")

	want := new(big.Int).Sub(ref.N, big.NewInt(2))
	in := scalar.MontgomeryDomainFieldElement{1, 0, 0, 0}

	var out scalar.MontgomeryDomainFieldElement

	scalar.VerifExpReset()
	scalar.Invert(&out, in)
	muls, squares, over := scalar.VerifExpCounts()
	got := ref.FromLimbs([4]uint64(out))

	r.States.Add(int64(muls + squares + 1))
	r.Transitions.Add(int64(muls + squares))
	r.Evals.Add(1)
	r.Distinct.Add(2)
	r.Bound("multiplications", muls)
	r.Bound("squarings", squares)

	// Applicability: the exponent-domain reading is only meaningful when Invert IS a chain of Mul/Square calls. A
	// chain maps the start exponent e to E*e (mod 2^256) for one fixed E; any other algorithm (a binary or safegcd
	// inversion, a call of another primitive on the way) does not, and its "exponent" is meaningless - neither a
	// confirmation nor a violation. Linearity is tested on the start exponents 2 and 3.
	linear := muls+squares > 0
	mod := new(big.Int).Lsh(big.NewInt(1), 256)

	for _, e := range []uint64{2, 3} {
		var o scalar.MontgomeryDomainFieldElement

		scalar.Invert(&o, scalar.MontgomeryDomainFieldElement{e, 0, 0, 0})

		w := new(big.Int).Mul(got, new(big.Int).SetUint64(e))
		if ref.FromLimbs([4]uint64(o)).Cmp(w.Mod(w, mod)) != 0 {
			linear = false
		}
	}

	if !linear {
		r.Incomplete("scalar.Invert of this tree is not a chain of Mul/Square calls (the exponent-domain run is not linear in the start exponent): the exponent-domain argument does not apply and this part decides nothing; inversion is covered by the value sweeps of the main part only")
		os.Exit(r.Finish())
	}

	if got.Cmp(want) != 0 || over != 0 {
		r.Violation("scalar.Invert/addition-chain-computes-wrong-exponent", fmt.Sprintf("chain computes s^%x (overflows %d), want s^%x", got, over, want), map[string]string{"op": "chain"})
	}

	r.Sample(map[string]string{"op": "chain", "name": "scalar.Invert", "expected_exponent": "n-2"})
	os.Exit(r.Finish())
}
