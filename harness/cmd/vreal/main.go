// Command vreal runs the checks that use the unmodified field (build variant "real").
package main

import (
	"encoding/json"
	"fmt"
	"os"
	"sort"

	"github.com/bytemare/secp256k1/internal/verif/checks"
	"github.com/bytemare/secp256k1/internal/verif/ev"
	"github.com/bytemare/secp256k1/internal/verif/prelude"
	"github.com/bytemare/secp256k1/internal/verif/ref"
	"github.com/bytemare/secp256k1/internal/verif/verifrt"
)

func main() {
	if len(os.Args) < 2 {
		fmt.Fprintln(os.Stderr, "usage: vreal <part> | replay <property> <file> | selfcheck | list")
		os.Exit(2)
	}

	prelude.HostileCaller()

	if err := ref.SelfCheck(); err != nil {
		fmt.Fprintln(os.Stderr, "TOOL-ERROR: oracle self-check failed:", err)
		os.Exit(2)
	}

	switch os.Args[1] {
	case "selfcheck":
		fmt.Println("oracle self-check ok")
		return
	case "list":
		var names []string
		for n := range checks.Parts {
			names = append(names, n)
		}

		sort.Strings(names)

		for _, n := range names {
			fmt.Println(n)
		}

		return
	case "replay":
		if len(os.Args) != 4 {
			fmt.Fprintln(os.Stderr, "usage: vreal replay <property> <file>")
			os.Exit(2)
		}

		os.Exit(replay(os.Args[2], os.Args[3]))
	}

	part, ok := checks.Parts[os.Args[1]]
	if !ok {
		fmt.Fprintln(os.Stderr, "unknown part", os.Args[1])
		os.Exit(2)
	}

	r := ev.New(part.Property, os.Args[1], verifrt.Variant)
	part.Run(r)
	os.Exit(r.Finish())
}

func replay(prop, file string) int {
	b, err := os.ReadFile(file)
	if err != nil {
		fmt.Fprintln(os.Stderr, err)
		return 2
	}

	var doc struct {
		Replay checks.Case `json:"replay"`
	}

	if err := json.Unmarshal(b, &doc); err != nil {
		fmt.Fprintln(os.Stderr, err)
		return 2
	}

	f, ok := checks.Replayers[prop]
	if doc.Replay["op"] == "faulthist" {
		f, ok = checks.ReplayFaultHist, true
	}

	if doc.Replay["op"] == "boundmethod" {
		f, ok = checks.ReplayBoundMethod, true
	}

	if !ok {
		fmt.Fprintln(os.Stderr, "no replayer for", prop)
		return 2
	}

	ok, msg := f(doc.Replay)
	if ok {
		fmt.Println("replay: property holds on this case")
		return 0
	}

	fmt.Printf("replay: violation reproduced: %s\n", msg)

	return 1
}
