// Command vsmalltrace records the field-API level traces of the small-field build (variant "smallinstr").
package main

import (
	"fmt"
	"math/big"
	"os"

	secp256k1 "github.com/bytemare/secp256k1"
	"github.com/bytemare/secp256k1/internal/field"
	"github.com/bytemare/secp256k1/internal/verif/ev"
	"github.com/bytemare/secp256k1/internal/verif/smallchk"
	"github.com/bytemare/secp256k1/internal/verif/tracechk"
	"github.com/bytemare/secp256k1/internal/verif/verifrt"
)

func main() {
	prop := "C02"
	if len(os.Args) > 1 && len(os.Args[1]) >= 3 {
		prop = os.Args[1][:3]
	}

	r := ev.New(prop, prop+"tracesmall", verifrt.Variant)

	if verifrt.Variant != "smallinstr" {
		r.ToolError("vsmalltrace must be built in variant smallinstr")
		os.Exit(r.Finish())
	}

	m, err := smallchk.Use(43)
	if err != nil {
		r.ToolError("%v", err)
		os.Exit(r.Finish())
	}

	// an abscissa in range that is not on the curve
	var bad []byte

	for x := uint64(0); x < m.Q && bad == nil; x++ {
		b := make([]byte, 33)
		b[0] = 2
		new(big.Int).SetUint64(x).FillBytes(b[1:])

		if _, ok := m.Dec(b, 2); !ok {
			b3 := append([]byte{}, b...)
			b3[0] = 3

			if _, ok := m.Dec(b3, 2); !ok {
				bad = b
			}
		}
	}

	if bad == nil {
		r.ToolError("no off-curve abscissa found")
		os.Exit(r.Finish())
	}

	env := tracechk.Env{
		Elem:          func(i int, l int64) *secp256k1.Element { return m.NewElem(smallchk.Rep{I: i, L: uint64(l)}) },
		FieldElem:     func(v uint64) *field.Element { return &field.Element{E: field.VerifEnc(v)} },
		BadCompressed: bad,
	}

	tracechk.APITraces(env)(r)
	fmt.Fprintln(os.Stderr, "small-field API traces written")
	os.Exit(r.Finish())
}
