// Command vcarrysearch (development tool): prints the solved alphabet members for both moduli.
package main

import (
	"fmt"
	"math/big"

	"github.com/bytemare/secp256k1/internal/verif/alpha"
	"github.com/bytemare/secp256k1/internal/verif/ref"
)

func main() {
	for _, m := range []*big.Int{ref.P, ref.N} {
		w := alpha.ReductionWitnesses(m)
		fmt.Printf("m=%x digits=%d from=%d to=%d (subtract %d) pairs=%d low=%d\n", m, len(w.Digits), len(w.FromMont), len(w.ToMont), w.ToMontSubtract, len(w.Pairs), len(w.LowLimbs))

		for _, x := range w.ToMont[len(w.ToMont)-w.ToMontSubtract:] {
			y := ref.Mod(new(big.Int).Lsh(x, 256), m)
			fmt.Printf("  x=%x y=%x\n", x, y)
		}
	}
}
