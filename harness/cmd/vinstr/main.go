// Command vinstr runs the checks that need the instrumented build (variant "instr").
package main

import (
	"encoding/json"
	"fmt"
	"os"

	"github.com/bytemare/secp256k1/internal/verif/ev"
	"github.com/bytemare/secp256k1/internal/verif/prelude"
	"github.com/bytemare/secp256k1/internal/verif/sched"
	"github.com/bytemare/secp256k1/internal/verif/tracechk"
	"github.com/bytemare/secp256k1/internal/verif/verifrt"
)

type part struct {
	property string
	run      func(r *ev.Report)
}

var parts = map[string]part{
	"C19":      {"C19", tracechk.C19},
	"C16sched": {"C16", sched.C16sched},
	"C15watch": {"C15", tracechk.C15watch},
	"C16watch": {"C16", tracechk.C16watch},
	"C02watch": {"C02", tracechk.C02watch},
}

func main() {
	if len(os.Args) < 2 {
		fmt.Fprintln(os.Stderr, "usage: vinstr <part> | replay <property> <file>")
		os.Exit(2)
	}

	prelude.HostileCaller()

	if os.Args[1] == "replay" {
		b, err := os.ReadFile(os.Args[3])
		if err != nil {
			fmt.Fprintln(os.Stderr, err)
			os.Exit(2)
		}

		var doc struct {
			Replay tracechk.Case `json:"replay"`
		}

		if err := json.Unmarshal(b, &doc); err != nil {
			fmt.Fprintln(os.Stderr, err)
			os.Exit(2)
		}

		var (
			ok  bool
			msg string
		)

		switch os.Args[2] {
		case "C19":
			ok, msg = tracechk.ReplayC19(doc.Replay)
		case "C16":
			if doc.Replay["op"] == "watch" {
				ok, msg = tracechk.ReplayWatch(doc.Replay)
			} else {
				ok, msg = sched.ReplayC16(sched.Case(doc.Replay))
			}
		case "C15", "C02":
			ok, msg = tracechk.ReplayWatch(doc.Replay)
		default:
			fmt.Fprintln(os.Stderr, "no replayer for", os.Args[2])
			os.Exit(2)
		}

		if ok {
			fmt.Println("replay: property holds on this case")
			os.Exit(0)
		}

		fmt.Println("replay: violation reproduced:", msg)
		os.Exit(1)
	}

	if len(os.Args[1]) > 3 && os.Args[1][3:] == "tracereal" {
		parts[os.Args[1]] = part{os.Args[1][:3], tracechk.APITraces(tracechk.RealEnv())}
	}

	p, ok := parts[os.Args[1]]
	if !ok {
		fmt.Fprintln(os.Stderr, "unknown part", os.Args[1])
		os.Exit(2)
	}

	r := ev.New(p.property, os.Args[1], verifrt.Variant)
	p.run(r)
	os.Exit(r.Finish())
}
