// Command vrace is the free-running pass of C16: the same operation bodies as the scheduler exploration, run by
// real goroutines with no scheduler, in a binary built with -race. The Go race detector is happens-before
// based; the two bodies share no synchronisation, so conflicting accesses between them are unordered in every
// schedule and are reported whatever the timing. (A cooperative scheduler would hide them: its hand-offs are
// happens-before edges.)
package main

import (
	"bytes"
	"fmt"
	"os"
	"os/exec"
	"path/filepath"
	"strings"
	"sync"

	secp256k1 "github.com/bytemare/secp256k1"
	"github.com/bytemare/secp256k1/internal/verif/conc"
	"github.com/bytemare/secp256k1/internal/verif/ev"
	"github.com/bytemare/secp256k1/internal/verif/prelude"
	"github.com/bytemare/secp256k1/internal/verif/verifrt"
)

func raceLogSize(prefix string) int64 {
	var n int64

	files, _ := filepath.Glob(prefix + ".*")
	for _, f := range files {
		if st, err := os.Stat(f); err == nil {
			n += st.Size()
		}
	}

	return n
}

func raceLogTail(prefix string, from int64) string {
	files, _ := filepath.Glob(prefix + ".*")

	var all []byte

	for _, f := range files {
		b, _ := os.ReadFile(f)
		all = append(all, b...)
	}

	if from < int64(len(all)) {
		all = all[from:]
	}

	if len(all) > 3000 {
		all = all[:3000]
	}

	return string(all)
}

// racePair runs the two thread bodies (each a list of alphabet indices) concurrently on one shared state.
func racePair(a, b []int) (results [2][]byte, sh *conc.Shared) {
	sh = conc.NewShared()
	start := make(chan struct{})

	var wg sync.WaitGroup

	for t, ops := range [2][]int{a, b} {
		wg.Add(1)

		go func(t int, ops []int) {
			defer wg.Done()
			<-start

			var res []byte
			for _, i := range ops {
				res = append(res, conc.Ops[i].Run(sh)...)
				res = append(res, 0xfe)
			}

			results[t] = res
		}(t, ops)
	}

	close(start)
	wg.Wait()

	return results, sh
}

func alone(ops []int) []byte {
	var res []byte
	for _, i := range ops {
		res = append(res, conc.Alone(conc.Ops[i])...)
		res = append(res, 0xfe)
	}

	return res
}

// cold runs one pair as the very first use of the library in a fresh process (no prelude, nothing computed
// before): state that the library builds lazily on first use is then built by two goroutines at once, which is
// where an unsynchronised lazy initialisation races. Results are compared with "alone" computed afterwards.
func cold(a, b int) int {
	res, sh := racePair([]int{a}, []int{b})
	status := 0

	if !bytes.Equal(res[0], alone([]int{a})) || !bytes.Equal(res[1], alone([]int{b})) {
		fmt.Println("COLD-RESULT-DIFFERS")
		status = 3
	}

	if !bytes.Equal(sh.Snapshot(), conc.NewShared().Snapshot()) {
		fmt.Println("COLD-SHARED-MODIFIED")
		status = 3
	}

	return status
}

func main() {
	if len(os.Args) == 4 && os.Args[1] == "cold" {
		var a, b int
		fmt.Sscan(os.Args[2], &a)
		fmt.Sscan(os.Args[3], &b)
		ev.GuardProcess()
		os.Exit(cold(a, b))
	}

	if len(os.Args) < 2 || os.Args[1] != "C16race" {
		fmt.Fprintln(os.Stderr, "usage: vrace C16race   (replay: re-run the check; race reports are not tied to a schedule)")
		os.Exit(2)
	}

	r := ev.New("C16", "C16race", verifrt.Variant+"+race")
	logPrefix := os.Getenv("VERIF_RACELOG")

	if logPrefix == "" || !strings.Contains(os.Getenv("GORACE"), "log_path") {
		r.ToolError("VERIF_RACELOG / GORACE log_path not set: race reports cannot be attributed")
		os.Exit(r.Finish())
	}

	// ---- cold starts: each pair (a, a) and (a, a+1) in a process of its own, before anything else touched the library
	nCold := 0

	type coldJob struct{ a, b int }

	var jobs []coldJob

	for a := range conc.Ops {
		for _, b := range []int{a, (a + 1) % len(conc.Ops)} {
			jobs = append(jobs, coldJob{a, b})
		}
	}

	nCold = len(jobs)

	ev.ParFor(len(jobs), func(_, i int) {
		a, b := jobs[i].a, jobs[i].b
		lp := fmt.Sprintf("%s-cold-%d-%d", logPrefix, a, b)
		cmd := exec.Command(os.Args[0], "cold", fmt.Sprint(a), fmt.Sprint(b))
		cmd.Env = append(os.Environ(), "GORACE=halt_on_error=0 exitcode=0 log_path="+lp, "GOMAXPROCS=4")
		out, err := cmd.CombinedOutput()
		r.Transitions.Add(2)
		r.Evals.Add(1)

		name := conc.Ops[a].Name + " || " + conc.Ops[b].Name
		c := map[string]string{"op": "cold", "a": fmt.Sprint(a), "b": fmt.Sprint(b), "names": name}

		if raceLogSize(lp) > 0 {
			r.Violation("data-race/on-first-use", fmt.Sprintf("pair %s as the first use of the library in a fresh process: race detector report:\n%s", name, raceLogTail(lp, 0)), c)
		}

		if strings.HasPrefix(string(out), "COLD-TOOL-ERROR") {
			r.ToolError("cold start of pair %s: %s", name, out)
		} else if strings.HasPrefix(string(out), "COLD-CALL-NEVER-RETURNS") {
			r.Violation("call-never-returns/on-first-use", fmt.Sprintf("pair %s in a fresh process: %s", name, out), c)
		} else if err != nil || len(out) > 0 {
			r.Violation("concurrent/first-use-result-differs-from-running-alone", fmt.Sprintf("pair %s in a fresh process: %v %s", name, err, out), c)
		}
	})

	r.Bound("cold_start_processes", nCold)
	prelude.HostileCaller()

	reps := 2
	if ev.Thorough() {
		reps = 5
	}

	r.Rule("free-running pass: every ordered pair of the concurrency alphabet (incl. an operation with itself) run by two real goroutines on one shared state, -race build, several repetitions; violation = any race-detector report, a result different from running alone, a modified shared argument or package-level variable; non-trivial = all pairs")
	r.Bound("alphabet", len(conc.Ops))
	r.Bound("repetitions", reps)

	snap0 := conc.NewShared().Snapshot()
	globals0 := secp256k1.VerifAllGlobals()
	expected := make([][]byte, len(conc.Ops))

	for i := range conc.Ops {
		expected[i] = alone([]int{i})
	}

	for a := range conc.Ops {
		for b := range conc.Ops {
			// the full product of core and value-class operations; API-coverage operations by the pairing policy
			if (conc.IsAPICoverage(conc.Ops[a].Name) || conc.IsAPICoverage(conc.Ops[b].Name)) && !conc.PairWanted(conc.Ops[a].Name, conc.Ops[b].Name) {
				continue
			}

			name := conc.Ops[a].Name + " || " + conc.Ops[b].Name

			for k := 0; k < reps; k++ {
				before := raceLogSize(logPrefix)
				res, sh := racePair([]int{a}, []int{b})
				r.Transitions.Add(2)
				r.Evals.Add(1)

				c := map[string]string{"op": "race", "a": fmt.Sprint(a), "b": fmt.Sprint(b), "names": name}

				if after := raceLogSize(logPrefix); after > before {
					r.Violation("data-race", fmt.Sprintf("pair %s: race detector report:\n%s", name, raceLogTail(logPrefix, before)), c)
				}

				if !bytes.Equal(res[0], expected[a]) || !bytes.Equal(res[1], expected[b]) {
					r.Violation("concurrent/result-differs-from-running-alone", "pair "+name, c)
				}

				if !bytes.Equal(sh.Snapshot(), snap0) {
					r.Violation("concurrent/shared-argument-modified", "pair "+name, c)
				}
			}

			r.States.Add(1)
			r.Distinct.Add(1)
		}
	}

	if g := secp256k1.VerifAllGlobals(); g != globals0 {
		r.Violation("concurrent/package-level-state-changed", g, map[string]string{"op": "globals"})
	}

	r.Sample(map[string]string{"op": "race", "a": "0", "b": "1", "names": conc.Ops[0].Name + " || " + conc.Ops[1].Name})
	os.Exit(r.Finish())
}
