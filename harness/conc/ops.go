// Package conc defines the concurrency alphabet of C16: operations that a thread runs on receivers it owns
// while sharing read-only arguments (elements, scalars, message / DST / encoding slices) with other threads.
// It is used by the cooperative-scheduler exploration (instrumented build), by the free-running race pass
// (-race build) and by the footprint enumeration.
package conc

import (
	"crypto/rand"
	"encoding/binary"
	"encoding/hex"
	"math/big"
	"strings"

	secp256k1 "github.com/bytemare/secp256k1"
	"github.com/bytemare/secp256k1/internal/field"
	"github.com/bytemare/secp256k1/internal/verif/ref"
)

// Shared is the read-only state shared by all threads of one execution.
type Shared struct {
	Buf        []byte // message and DST area; the DST slices overlap and have spare capacity
	M          []byte
	D18, D20   []byte
	DLong      []byte
	E1, E2, E0 *secp256k1.Element // E0 is a shared identity (0:5:0)
	S1, S2     *secp256k1.Scalar
	S3, S4, S0 *secp256k1.Scalar // small shared scalars: 9, 2, 0
	EB, EU, SB []byte
	encBuf     []byte
	// U is the shared argument of the exported map functions SSWU and Secp256Polynomial. (IsogenySecp256k13iso
	// works in place on its argument and returns it: that argument is a receiver, not a shared read-only value.)
	U *field.Element
}

func rawElement(p ref.Pt, l *big.Int) *secp256k1.Element {
	e := secp256k1.VerifBlankElement()
	return secp256k1.VerifSetRaw(e, ref.Mont(ref.Fp.Mul(p.X, l), ref.P), ref.Mont(ref.Fp.Mul(p.Y, l), ref.P), ref.Mont(l, ref.P))
}

func rawScalar(v *big.Int) *secp256k1.Scalar {
	s := secp256k1.NewScalar()
	s.S = ref.Mont(v, ref.N)

	return s
}

var (
	ptH  = ref.HashToCurve([]byte("verif point H"), []byte("VERIF-V01-CS02-with-secp256k1_XMD:SHA-256_SSWU_RO_"))
	pt5G = ref.Secp.Mul(big.NewInt(5), ref.G())
	valA = new(big.Int).Sub(ref.N, big.NewInt(12345))
	valB = new(big.Int).Add(new(big.Int).Lsh(big.NewInt(1), 200), big.NewInt(77))
	valU = new(big.Int).Sub(ref.P, big.NewInt(0xabcdef987))
)

// NewShared builds a fresh, deterministic shared state.
func NewShared() *Shared { return NewSharedFill(0) }

// NewSharedFill is NewShared with the message/DST area xor-ed with mask (the footprint enumeration uses two
// complementary fills so that a write of "the value already there" is still seen in one of them).
func NewSharedFill(mask byte) *Shared {
	s := &Shared{}
	s.Buf = make([]byte, 64+64+320)

	for i := range s.Buf {
		s.Buf[i] = byte(i*11+3) ^ mask
	}

	s.M = s.Buf[:40:40]
	s.D18 = s.Buf[64 : 64+18] // capacity runs on into D20's bytes and beyond
	s.D20 = s.Buf[64 : 64+20]
	s.DLong = s.Buf[128 : 128+300]
	s.E1 = rawElement(ptH, big.NewInt(3))
	s.E2 = rawElement(pt5G, big.NewInt(1))
	s.E0 = secp256k1.VerifSetRaw(secp256k1.VerifBlankElement(), [4]uint64{}, ref.Mont(big.NewInt(5), ref.P), [4]uint64{})
	s.S1 = rawScalar(valA)
	s.S2 = rawScalar(valB)
	s.S3, s.S4, s.S0 = rawScalar(big.NewInt(9)), rawScalar(big.NewInt(2)), rawScalar(big.NewInt(0))
	s.encBuf = make([]byte, 0, 33+65+32+8)
	s.encBuf = append(s.encBuf, ref.Enc(ptH)...)
	s.encBuf = append(s.encBuf, ref.EncUncompressed(pt5G)...)
	s.encBuf = append(s.encBuf, ref.Bytes32(valB)...)
	s.EB = s.encBuf[:33]
	s.EU = s.encBuf[33 : 33+65]
	s.SB = s.encBuf[98 : 98+32]
	s.U = &field.Element{E: ref.Mont(valU, ref.P)}

	if Past {
		s.givePast()
	}

	return s
}

// Past selects the second kind of shared state: objects WITH A PAST. A freshly written element or scalar has never
// been looked at; whatever the library attaches to an object when it is first encoded, compared or expanded (a memo of
// its affine form, of its bit expansion, a lock that has been taken) is absent, and two threads that share it both
// take the "first use" path. With Past set, every shared element and scalar has been read through every read-only
// method and then changed in place THROUGH THE API (Double, Add) before it is shared, so that stale per-object state
// is present when the concurrent calls begin. The values differ from the fresh state's; the oracle (each call's
// result when run alone on a state built the same way, snapshot of the shared memory) does not depend on them.
var Past bool

func (s *Shared) givePast() {
	other := rawElement(ref.G(), big.NewInt(7))

	for _, e := range []*secp256k1.Element{s.E1, s.E2, s.E0} {
		_ = e.Encode()
		_ = e.EncodeUncompressed()
		_ = e.Hex()
		_ = e.XCoordinate()
		_ = e.Equal(other)
		_ = other.Equal(e)
		_ = e.IsIdentity()
		_ = e.Copy()
	}

	s.E1.Double()
	s.E2.Add(other)

	one := rawScalar(big.NewInt(1))

	for _, x := range []*secp256k1.Scalar{s.S1, s.S2, s.S3, s.S4, s.S0} {
		_ = x.Bits()
		_ = x.Encode()
		_ = x.Hex()
		_ = x.IsZero()
		_ = x.IsOne()
		_ = x.Equal(one)
		_ = x.LessOrEqual(one)
		_ = x.Copy()
	}

	s.S1.Add(one)
	s.S2.Multiply(rawScalar(big.NewInt(3)))
}

// UsesSharedObject reports whether the operation names a shared element or scalar (the scenarios that are repeated on
// shared state with a past).
func UsesSharedObject(name string) bool {
	for _, m := range []string{"E1", "E2", "S1", "S2"} {
		if strings.Contains(name, m) {
			return true
		}
	}

	return false
}

// Snapshot serialises every shared byte and limb.
func (s *Shared) Snapshot() []byte { return s.SnapshotInto(nil) }

// SnapshotInto is Snapshot appending to dst[:0] (no allocation when dst is large enough).
func (s *Shared) SnapshotInto(dst []byte) []byte {
	b := dst[:0]
	b = append(b, s.Buf...)
	b = append(b, s.encBuf[:cap(s.encBuf)]...)

	var w8 [8]byte

	put := func(w uint64) {
		binary.LittleEndian.PutUint64(w8[:], w)
		b = append(b, w8[:]...)
	}

	for _, w := range s.U.E {
		put(w)
	}

	for _, e := range []*secp256k1.Element{s.E1, s.E2, s.E0} {
		x, y, z := secp256k1.VerifRaw(e)
		for _, l := range [][4]uint64{x, y, z} {
			for _, w := range l {
				put(w)
			}
		}
	}

	for _, sc := range []*secp256k1.Scalar{s.S1, s.S2, s.S3, s.S4, s.S0} {
		for _, w := range sc.S {
			put(w)
		}
	}

	return b
}

// Op is one member of the concurrency alphabet. Run builds the receivers it owns, performs the call(s) with
// shared arguments and returns the observable result as bytes.
type Op struct {
	Name string
	Run  func(sh *Shared) []byte
}

// IsValueClass reports whether the operation is one of the "special value class" operations (identity element,
// small / zero scalars, short results). The scheduler exploration pairs those with each other and with a few core
// operations instead of with the whole alphabet.
func IsValueClass(name string) bool {
	for _, m := range []string{"E0", "S0=", "S3=", "S4="} {
		if strings.Contains(name, m) {
			return true
		}
	}

	return false
}

// IsAPICoverage reports whether the operation is one of the "every remaining exported function" operations (name
// suffix #api): they exist so that mutable global state or a write to a shared argument behind ANY exported function
// is seen by the footprint, watch and race parts; the scheduler exploration and the race pass pair them only with
// themselves and with the core partners.
func IsAPICoverage(name string) bool { return strings.HasSuffix(name, "#api") }

// IsSharedReceiver: read-only methods called on shared objects (name suffix #ro).
func IsSharedReceiver(name string) bool { return strings.HasSuffix(name, "#ro") }

// IsFailing: calls that fail (name suffix #fail).
func IsFailing(name string) bool { return strings.HasSuffix(name, "#fail") }

// recovered runs f as a caller that recovers from panics would.
func recovered(f func() []byte) (out []byte) {
	defer func() {
		if p := recover(); p != nil {
			out = []byte("panic")
		}
	}()

	return f()
}

func errByte2(b bool) byte {
	if b {
		return 1
	}

	return 0
}

// CorePartner lists the core operations that value-class and API-coverage operations are paired with.
var CorePartner = map[string]bool{"HashToScalar(M,D[:18])": true, "Element.Subtract(E1)": true, "Element.Multiply(S1)": true,
	"Scalar.Pow(S2)": true, "E1.Encode()": true, "Scalar.Set(S1).Add(S2)": true}

// PairWanted is the pairing policy of the two-thread scenarios: core x core, value-class x value-class, an
// API-coverage operation with itself, and value-class / API-coverage operations with the core partners.
func PairWanted(a, b string) bool {
	class := func(n string) int {
		switch {
		case IsSharedReceiver(n), IsFailing(n):
			return 3
		case IsAPICoverage(n):
			return 2
		case IsValueClass(n):
			return 1
		}

		return 0
	}

	ca, cb := class(a), class(b)

	switch {
	case ca == 0 && cb == 0, ca == 1 && cb == 1:
		return true
	case ca == 2 && cb == 2:
		return a == b
	case ca == 3 && cb == 3:
		return true
	case ca == 3 && cb != 0, cb == 3 && ca != 0:
		return false
	case ca != 0 && cb == 0:
		return CorePartner[b]
	case ca == 0 && cb != 0:
		return CorePartner[a]
	}

	return false
}

func own() *secp256k1.Element { return rawElement(ref.G(), big.NewInt(2)) }

func errByte(err error) byte {
	if err != nil {
		return 1
	}

	return 0
}

// constReader is installed as crypto/rand.Reader for the whole process by this package: Random then has a defined
// "result when run alone" (the scalar of the constant block), and is race-free and global-free in a correct
// implementation - it reads into memory the caller owns.
type constReader struct{}

func (constReader) Read(p []byte) (int, error) {
	for i := range p {
		p[i] = 0x42
	}

	return len(p), nil
}

func init() { rand.Reader = constReader{} }

// Ops is the alphabet.
var Ops = []Op{
	{"Scalar.Random", func(sh *Shared) []byte { return rawScalar(big.NewInt(9)).Random().Encode() }},
	// failing calls, recovered by the caller as a server would (#fail: paired with each other, themselves and the core
	// partners): a lock, a pooled object or a flag that a panic or error path leaves behind blocks or misleads the
	// OTHER thread
	{"HashToScalar(M, zero-length window of D) recovered #fail", func(sh *Shared) []byte {
		return recovered(func() []byte { return secp256k1.HashToScalar(sh.M, sh.D18[:0]).Encode() })
	}},
	{"HashToGroup(M, nil DST) recovered #fail", func(sh *Shared) []byte {
		return recovered(func() []byte { return secp256k1.HashToGroup(sh.M, nil).Encode() })
	}},
	{"Element.Decode(EU[:64]) + DecodeHex(bad) rejected #fail", func(sh *Shared) []byte {
		e := own()
		err1 := e.Decode(sh.EU[:64])
		err2 := e.DecodeHex("02zz")

		return append(e.Encode(), errByte(err1), errByte(err2))
	}},
	{"Scalar.Decode(M) + DecodeHex(odd) rejected #fail", func(sh *Shared) []byte {
		s := rawScalar(big.NewInt(9))
		err1 := s.Decode(sh.M)
		err2 := s.DecodeHex("abc")

		return []byte{errByte(err1), errByte(err2)}
	}},
	{"(*Element)(nil).Add(E1) / (*Scalar)(nil).Add(S1) recovered #fail", func(sh *Shared) []byte {
		var (
			e *secp256k1.Element
			s *secp256k1.Scalar
		)

		a := recovered(func() []byte { return e.Add(sh.E1).Encode() })
		b := recovered(func() []byte { return s.Add(sh.S1).Encode() })

		return append(a, b...)
	}},
	// receivers that are the affine generator (what Base() returns, Z = 1): a fixed-base table or any other
	// "this is G" fast path - typically built lazily on first use - is only reached through them
	{"Base().Multiply(S1)", func(sh *Shared) []byte { return secp256k1.Base().Multiply(sh.S1).Encode() }},
	{"Base().Multiply(S2)", func(sh *Shared) []byte { return secp256k1.Base().Multiply(sh.S2).Encode() }},
	{"Base().Multiply(S3=9)", func(sh *Shared) []byte { return secp256k1.Base().Multiply(sh.S3).Encode() }},
	{"Base().Add(E1).Double", func(sh *Shared) []byte { return secp256k1.Base().Add(sh.E1).Double().Encode() }},
	// other receiver kinds: a fresh identity, and an affine point that is not the generator
	{"NewElement().Add(E1).Subtract(E2)", func(sh *Shared) []byte { return secp256k1.NewElement().Add(sh.E1).Subtract(sh.E2).Encode() }},
	{"decoded(EB).Multiply(S2)", func(sh *Shared) []byte {
		e := secp256k1.NewElement()
		if err := e.Decode(sh.EB); err != nil {
			return []byte{0xee}
		}

		return e.Multiply(sh.S2).Encode()
	}},
	{"HashToScalar(M,D[:18])", func(sh *Shared) []byte { return secp256k1.HashToScalar(sh.M, sh.D18).Encode() }},
	{"HashToScalar(M,D[:20])", func(sh *Shared) []byte { return secp256k1.HashToScalar(sh.M, sh.D20).Encode() }},
	{"HashToScalar(M,Dlong)", func(sh *Shared) []byte { return secp256k1.HashToScalar(sh.M, sh.DLong).Encode() }},
	{"HashToGroup(M,D[:18])", func(sh *Shared) []byte { return secp256k1.HashToGroup(sh.M, sh.D18).Encode() }},
	{"EncodeToGroup(M,D[:20])", func(sh *Shared) []byte { return secp256k1.EncodeToGroup(sh.M, sh.D20).Encode() }},
	{"Element.Decode(EB)", func(sh *Shared) []byte {
		e := own()
		err := e.Decode(sh.EB)

		return append(e.Encode(), errByte(err))
	}},
	{"Element.DecodeUncompressed(EU)", func(sh *Shared) []byte {
		e := own()
		err := e.DecodeUncompressed(sh.EU)

		return append(e.Encode(), errByte(err))
	}},
	{"Scalar.Decode(SB)", func(sh *Shared) []byte {
		s := rawScalar(big.NewInt(9))
		err := s.Decode(sh.SB)

		return append(s.Encode(), errByte(err))
	}},
	{"Element.Add(E1)", func(sh *Shared) []byte { return own().Add(sh.E1).Encode() }},
	{"Element.Subtract(E1)", func(sh *Shared) []byte { return own().Subtract(sh.E1).Encode() }},
	{"Element.Subtract(E2)", func(sh *Shared) []byte { return own().Subtract(sh.E2).Encode() }},
	{"Element.Set(E1).Double", func(sh *Shared) []byte { return own().Set(sh.E1).Double().Encode() }},
	{"Element.Equal(E1)", func(sh *Shared) []byte { return []byte{byte(own().Equal(sh.E1)), byte(sh.E1.Copy().Equal(sh.E1))} }},
	// read-only methods called ON shared elements, in both argument orders (#ro: paired with each other and with the
	// core partners): a lock per object taken in receiver-then-argument order deadlocks only for this pair
	{"E1.Equal(E2)/IsIdentity #ro", func(sh *Shared) []byte { return []byte{byte(sh.E1.Equal(sh.E2)), errByte2(sh.E1.IsIdentity())} }},
	{"E2.Equal(E1)/Hex #ro", func(sh *Shared) []byte { return append([]byte{byte(sh.E2.Equal(sh.E1))}, sh.E2.Hex()...) }},
	{"Element.Multiply(S1)", func(sh *Shared) []byte { return own().Multiply(sh.S1).Encode() }},
	{"E1.Copy().Multiply(S2)", func(sh *Shared) []byte { return sh.E1.Copy().Multiply(sh.S2).Encode() }},
	{"E1.Encode()", func(sh *Shared) []byte { return sh.E1.Encode() }},
	{"E1.EncodeUncompressed()", func(sh *Shared) []byte { return sh.E1.EncodeUncompressed() }},
	{"E1.Copy().Negate()", func(sh *Shared) []byte { return sh.E1.Copy().Negate().Encode() }},
	{"Scalar.Set(S1).Add(S2)", func(sh *Shared) []byte { return rawScalar(big.NewInt(9)).Set(sh.S1).Add(sh.S2).Encode() }},
	{"Scalar.Subtract(S1)", func(sh *Shared) []byte { return rawScalar(big.NewInt(9)).Subtract(sh.S1).Encode() }},
	{"Scalar.Multiply(S2)", func(sh *Shared) []byte { return rawScalar(big.NewInt(9)).Multiply(sh.S2).Encode() }},
	{"Scalar.Pow(S2)", func(sh *Shared) []byte { return rawScalar(big.NewInt(9)).Pow(sh.S2).Encode() }},
	{"S1.Copy().Invert()", func(sh *Shared) []byte { return sh.S1.Copy().Invert().Encode() }},
	{"Scalar.Equal/LessOrEqual(S1,S2)", func(sh *Shared) []byte {
		return []byte{byte(sh.S1.Equal(sh.S2)), byte(sh.S1.LessOrEqual(sh.S2)), byte(sh.S2.LessOrEqual(sh.S1))}
	}},
	{"Scalar.CSelect(1,S1,S2)", func(sh *Shared) []byte {
		s := rawScalar(big.NewInt(9))
		err := s.CSelect(1, sh.S1, sh.S2)

		return append(s.Encode(), errByte(err))
	}},
	{"S1.Encode()+Bits()", func(sh *Shared) []byte {
		b := sh.S1.Bits()
		return append(sh.S1.Encode(), b[:]...)
	}},
	{"Base().Encode()", func(sh *Shared) []byte { return secp256k1.Base().Encode() }},
	{"NewElement().Add(E2)", func(sh *Shared) []byte { return secp256k1.NewElement().Add(sh.E2).Encode() }},
	{"Order()", func(sh *Shared) []byte { return secp256k1.Order() }},
	// special value classes of the shared arguments: identity element, small and zero scalars, short results
	{"Element.Subtract(E0=identity)", func(sh *Shared) []byte { return own().Subtract(sh.E0).Encode() }},
	{"Element.Add(E0=identity)", func(sh *Shared) []byte { return own().Add(sh.E0).Encode() }},
	{"E0.Copy().Double().Encode()", func(sh *Shared) []byte { return sh.E0.Copy().Double().Encode() }},
	{"Element.Multiply(S4=2)", func(sh *Shared) []byte { return own().Multiply(sh.S4).Encode() }},
	{"Element.Multiply(S0=0)", func(sh *Shared) []byte { return own().Multiply(sh.S0).Encode() }},
	{"Scalar(2).Pow(S3=9)", func(sh *Shared) []byte { return rawScalar(big.NewInt(2)).Pow(sh.S3).Encode() }},
	{"Scalar(3).Pow(S4=2)", func(sh *Shared) []byte { return rawScalar(big.NewInt(3)).Pow(sh.S4).Encode() }},
	{"Scalar(0).Pow(S3=9)", func(sh *Shared) []byte { return rawScalar(big.NewInt(0)).Pow(sh.S3).Encode() }},
	{"Scalar.Multiply(S0=0)", func(sh *Shared) []byte { return rawScalar(big.NewInt(9)).Multiply(sh.S0).Encode() }},
	// the caller owns every returned slice and may write into it: the write must stay private to this thread
	{"Order()+overwrite-result", func(sh *Shared) []byte { return takeAndOverwrite(secp256k1.Order()) }},
	{"E1.Encode()+overwrite-result", func(sh *Shared) []byte { return takeAndOverwrite(sh.E1.Encode()) }},
	{"S1.Encode()+overwrite-result", func(sh *Shared) []byte { return takeAndOverwrite(sh.S1.Encode()) }},
	// ---- every remaining exported function, once (#api) ------------------------------------------------------
	{"Element.DecodeHex(hex EB) #api", func(sh *Shared) []byte {
		e := own()
		err := e.DecodeHex(hex.EncodeToString(sh.EB))

		return append(e.Encode(), errByte(err))
	}},
	{"Element.DecodeCompressed(EB) #api", func(sh *Shared) []byte {
		e := own()
		err := e.DecodeCompressed(sh.EB)

		return append(e.Encode(), errByte(err))
	}},
	{"Element.DecodeCoordinates(EU) #api", func(sh *Shared) []byte {
		e := own()
		err := e.DecodeCoordinates([32]byte(sh.EU[1:33]), [32]byte(sh.EU[33:65]))

		return append(e.Encode(), errByte(err))
	}},
	{"Element.UnmarshalBinary(EU) #api", func(sh *Shared) []byte {
		e := own()
		err := e.UnmarshalBinary(sh.EU)

		return append(e.Encode(), errByte(err))
	}},
	{"E1.Hex/MarshalBinary/XCoordinate/IsIdentity #api", func(sh *Shared) []byte {
		b, _ := sh.E1.MarshalBinary()
		out := append([]byte(sh.E1.Hex()), b...)
		out = append(out, sh.E1.XCoordinate()...)

		if sh.E1.IsIdentity() {
			out = append(out, 1)
		}

		return out
	}},
	{"Element.Identity/Base/Negate/Double #api", func(sh *Shared) []byte {
		e := own()
		out := append([]byte{}, e.Identity().Encode()...)
		out = append(out, e.Base().Negate().Double().Encode()...)

		return out
	}},
	{"Scalar.DecodeHex/UnmarshalBinary(SB) #api", func(sh *Shared) []byte {
		s, t := rawScalar(big.NewInt(9)), rawScalar(big.NewInt(9))
		e1 := s.DecodeHex(hex.EncodeToString(sh.SB))
		e2 := t.UnmarshalBinary(sh.SB)

		return append(append(s.Encode(), t.Encode()...), errByte(e1), errByte(e2))
	}},
	{"S1.Hex/MarshalBinary/IsZero/IsOne #api", func(sh *Shared) []byte {
		b, _ := sh.S1.MarshalBinary()
		out := append([]byte(sh.S1.Hex()), b...)

		if sh.S1.IsZero() || sh.S1.IsOne() {
			out = append(out, 1)
		}

		return out
	}},
	{"Scalar.SetUInt64/Square/Zero/One/MinusOne #api", func(sh *Shared) []byte {
		s := rawScalar(big.NewInt(9))
		out := append([]byte{}, s.SetUInt64(0xfedcba9876543210).Square().Encode()...)
		out = append(out, s.Zero().Encode()...)
		out = append(out, s.One().Encode()...)
		out = append(out, s.MinusOne().Encode()...)

		return out
	}},
	{"HashToGroup(M,Dlong) #api", func(sh *Shared) []byte { return secp256k1.HashToGroup(sh.M, sh.DLong).Encode() }},
	{"EncodeToGroup(M,Dlong) #api", func(sh *Shared) []byte { return secp256k1.EncodeToGroup(sh.M, sh.DLong).Encode() }},
	{"SSWU+Isogeny+Polynomial #api", func(sh *Shared) []byte {
		p := secp256k1.IsogenySecp256k13iso(secp256k1.SSWU(sh.U))
		y := field.New()
		secp256k1.Secp256Polynomial(y, sh.U)
		b := y.Bytes()

		return append(p.Encode(), b[:]...)
	}},
	{"Order/Ciphersuite/lengths #api", func(sh *Shared) []byte {
		out := append([]byte(secp256k1.Ciphersuite()), secp256k1.Order()...)
		return append(out, byte(secp256k1.ElementLength()), byte(secp256k1.ScalarLength()))
	}},
}

// takeAndOverwrite returns a copy of b and then inverts every byte of b over its full capacity.
func takeAndOverwrite(b []byte) []byte {
	out := append([]byte{}, b...)
	b = b[:cap(b)]

	for i := range b {
		b[i] ^= 0xff
	}

	return out
}

// Alone returns what op returns when run alone on a private copy of the shared state.
func Alone(op Op) []byte { return op.Run(NewShared()) }
