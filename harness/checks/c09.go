package checks

import (
	"bytes"
	"fmt"
	"strings"

	secp256k1 "github.com/bytemare/secp256k1"
	"github.com/bytemare/secp256k1/internal/scalar"
	"github.com/bytemare/secp256k1/internal/verif/ev"
	"github.com/bytemare/secp256k1/internal/verif/ref"
)

func c09Case(msg, dst []byte) (key, detail string) {
	m, d := cloneBytes(msg), cloneBytes(dst)
	desc := fmt.Sprintf("msg=%x (len %d) dst=%x (len %d)", trunc(msg), len(msg), trunc(dst), len(dst))

	var s *secp256k1.Scalar

	if p := catchStr(func() { s = secp256k1.HashToScalar(m, d) }); p != "" {
		return "HashToScalar/panic", desc + ": " + p
	}

	if ok, why := scalarIs(s, ref.HashToScalar(msg, dst)); !ok {
		return "HashToScalar/differs-from-RFC9380/" + dstClass(dst), desc + ": " + why
	}

	if !bytes.Equal(m, msg) || !bytes.Equal(d, dst) {
		return "HashToScalar/input-modified", desc
	}

	// message and DST as adjacent windows of one caller buffer: the message's spare capacity is the DST
	if len(msg)+len(dst) <= 2048 {
		frame := make([]byte, len(msg)+len(dst), len(msg)+len(dst)+8)
		copy(frame, msg)
		copy(frame[len(msg):], dst)
		snap := append([]byte{}, frame...)

		var s3 *secp256k1.Scalar

		if p := catchStr(func() { s3 = secp256k1.HashToScalar(frame[:len(msg)], frame[len(msg):]) }); p != "" {
			return "HashToScalar/panic", desc + " (adjacent windows): " + p
		}

		if ok, _ := scalarIs(s3, ref.HashToScalar(msg, dst)); !ok {
			return "HashToScalar/differs-from-RFC9380/msg-and-DST-adjacent-in-one-buffer", desc
		}

		if !bytes.Equal(frame, snap) {
			return "HashToScalar/input-modified/msg-and-DST-adjacent-in-one-buffer", desc
		}
	}

	return "", ""
}

func c09EmptyDST(msg, dst []byte) (key, detail string) {
	returned := false

	p := catchStr(func() {
		secp256k1.HashToScalar(msg, dst)
		returned = true
	})

	if returned {
		return "HashToScalar/empty-DST-did-not-panic", fmt.Sprintf("msg=%x", trunc(msg))
	}

	if !strings.Contains(p, errZeroDST) {
		return "HashToScalar/empty-DST-wrong-panic", p
	}

	return "", ""
}

func c09WideCase(in [48]byte) (key, detail string) {
	var out scalar.MontgomeryDomainFieldElement

	out[0], out[3] = 0xdead, 0xbeef
	cp := in
	scalar.HashToFieldElement(&out, in)
	want := ref.Mod(ref.OS2IP(cp[:]), ref.N)
	l := [4]uint64(out)

	if !canonicalLimbs(l, nLimbs) {
		return "scalar.HashToFieldElement/non-canonical", fmt.Sprintf("input %x", cp)
	}

	if got := ref.Unmont(l, ref.N); got.Cmp(want) != 0 {
		return "scalar.HashToFieldElement/wrong-reduction", fmt.Sprintf("input %x: got %x want %x", cp, got, want)
	}

	return "", ""
}

// C09 checks HashToScalar and the 48-byte reduction seam.
func C09(r *ev.Report) {
	size, level := 1, 0
	if ev.Thorough() {
		size, level = 2, 1
	}

	pairs := hashPairs(size)
	wide := wide48(ref.N, level)

	r.Rule("HashToScalar on the (msg, DST) product (nil/empty/every 1-byte message x every 1-byte DST; length alphabets incl. DST 254..257, 300, 511, 512, 1000; thorough: every 2-byte message x 64 DSTs) against OS2IP(expand_message_xmd(msg, DST, 48)) mod n computed independently; the reduction seam internal/scalar.HashToFieldElement on the 6-limb product of 48-byte strings and windows around multiples of n; panic on empty/nil DST; non-trivial = all (distinct inputs)")
	r.Bound("pairs", len(pairs))
	r.Bound("wide_strings", len(wide))
	r.States.Add(int64(len(pairs) + len(wide)))

	r.ParFor(len(pairs), func(_, i int) {
		p := pairs[i]
		r.Transitions.Add(1)
		r.Evals.Add(1)
		r.Distinct.Add(1)
		r.Count(dstClass(p.dst), 1)

		if key, detail := c09Case(p.msg, p.dst); key != "" {
			r.Violation(key, detail, Case{"op": "hash", "msg": hb(p.msg), "dst": hb(p.dst), "nilmsg": fmt.Sprint(p.msg == nil)})
		}
	})

	r.ParFor(len(wide), func(_, i int) {
		r.Transitions.Add(1)
		r.Evals.Add(1)
		r.Distinct.Add(1)

		if ref.OS2IP(wide[i][:]).Cmp(ref.N) >= 0 {
			r.Count("wide_input_ge_n", 1)
		}

		if key, detail := c09WideCase(wide[i]); key != "" {
			r.Violation(key, detail, Case{"op": "wide", "a": hb(wide[i][:])})
		}
	})

	// complete length product: every (message length, DST length) pair up to the bound
	maxLen := 400
	if ev.Thorough() {
		maxLen = 1100
	}

	big := fill(maxLen, 2)
	r.Bound("length_product", fmt.Sprintf("msg 0..%d x DST 1..%d", maxLen, maxLen))

	r.ParFor(maxLen+1, func(_, ml int) {
		for dl := 1; dl <= maxLen; dl++ {
			if key, detail := c09Case(big[:ml], big[maxLen-dl:]); key != "" {
				r.Violation(key, detail, Case{"op": "hash", "msg": hb(big[:ml]), "dst": hb(big[maxLen-dl:]), "nilmsg": "false"})
			}
		}

		r.Transitions.Add(int64(maxLen))
		r.Evals.Add(int64(maxLen))
		r.States.Add(int64(maxLen))
		r.Distinct.Add(int64(maxLen))
	})

	for _, m := range shortMsgs(false)[:20] {
		for _, d := range [][]byte{nil, {}} {
			r.Transitions.Add(1)
			r.Evals.Add(1)
			r.Count("empty_dst_calls", 1)

			if key, detail := c09EmptyDST(m, d); key != "" {
				r.Violation(key, detail, Case{"op": "emptydst", "msg": hb(m), "nildst": fmt.Sprint(d == nil)})
			}
		}
	}

	r.Sample(Case{"op": "hash", "msg": hb([]byte("abc")), "dst": hb(fill(257, 2))})
	r.Sample(Case{"op": "wide", "a": hb(wide[len(wide)/3][:])})
	r.RequireNonVacuous("dst<255", "dst=255", "dst=256", "dst>256", "wide_input_ge_n", "empty_dst_calls")
}

func init() {
	Parts["C09"] = Part{"C09", C09}
	Replayers["C09"] = func(c Case) (bool, string) {
		switch c["op"] {
		case "bin", "equals", "unary", "predicate", "neighbour", "sqrt", "parse", "wide", "Add", "Subtract", "Multiply", "Square", "Invert", "Pow", "SetUInt64", "persist":
			if c["op"] != "wide" || len(c["msg"]) == 0 {
				if f, ok := Replayers["C06"]; ok && c["op"] != "hash" {
					return f(c)
				}
			}
		}

		var key, detail string

		switch c["op"] {
		case "history":
			return histReplay(c)
		case "hash":
			msg := unhb(c["msg"])
			if c["nilmsg"] == "true" {
				msg = nil
			}

			key, detail = c09Case(msg, unhb(c["dst"]))
		case "wide":
			var in [48]byte
			copy(in[:], unhb(c["a"]))
			key, detail = c09WideCase(in)
		case "emptydst":
			d := []byte{}
			if c["nildst"] == "true" {
				d = nil
			}

			key, detail = c09EmptyDST(unhb(c["msg"]), d)
		}

		return key == "", key + " " + detail
	}
}
