package checks

import (
	"bytes"
	"encoding/hex"
	"fmt"
	"math/big"
	"strings"

	secp256k1 "github.com/bytemare/secp256k1"
	"github.com/bytemare/secp256k1/internal/verif/alpha"
	"github.com/bytemare/secp256k1/internal/verif/ev"
	"github.com/bytemare/secp256k1/internal/verif/ref"
)

const (
	errNilScalar    = "nil or empty scalar"
	errScalarLength = "invalid scalar length"
	errScalarTooBig = "scalar too big"
)

// scalarDecoders are the byte-level decoders; all must behave identically.
var scalarDecoders = []struct {
	name string
	f    func(s *secp256k1.Scalar, b []byte) error
}{
	{"Decode", (*secp256k1.Scalar).Decode},
	{"UnmarshalBinary", (*secp256k1.Scalar).UnmarshalBinary},
	{"DecodeHex", func(s *secp256k1.Scalar, b []byte) error { return s.DecodeHex(hex.EncodeToString(b)) }},
	{"DecodeHex-upper", func(s *secp256k1.Scalar, b []byte) error { return s.DecodeHex(strings.ToUpper(hex.EncodeToString(b))) }},
}

// c07DecodeCase presents b to decoder di with a receiver previously holding prev.
// scratch, when non-nil, is a long-lived caller buffer the input is written into (buffer reuse across calls).
func c07DecodeCase(di int, b []byte, prev *big.Int, scratch []byte) (key, detail string) {
	d := scalarDecoders[di]
	s := newScalar(prev)
	in := append([]byte{}, b...)

	if scratch != nil && len(b) <= len(scratch) {
		in = scratch[:copy(scratch, b)]
	}

	var err error

	if p := catchStr(func() { err = d.f(s, in) }); p != "" {
		return d.name + "/panic", fmt.Sprintf("input %x: %s", b, p)
	}

	if !bytes.Equal(in, b) {
		return d.name + "/input-modified", fmt.Sprintf("input %x", b)
	}

	v := ref.OS2IP(b)

	var wantErr string

	switch {
	case len(b) == 0:
		wantErr = errNilScalar
	case len(b) != 32:
		wantErr = errScalarLength
	case v.Cmp(ref.N) >= 0:
		wantErr = errScalarTooBig
	}

	if wantErr != "" {
		if err == nil {
			return d.name + "/accepted-invalid/" + strings.ReplaceAll(wantErr, " ", "-"), fmt.Sprintf("input %x (len %d) accepted", b, len(b))
		}

		if err.Error() != wantErr {
			return d.name + "/wrong-error/" + strings.ReplaceAll(wantErr, " ", "-"), fmt.Sprintf("input %x: error %q, want %q", b, err, wantErr)
		}

		return "", ""
	}

	if err != nil {
		return d.name + "/rejected-valid", fmt.Sprintf("input %x: %v", b, err)
	}

	if ok, why := scalarIs(s, v); !ok {
		return d.name + "/wrong-value", fmt.Sprintf("input %x: %s", b, why)
	}

	// Encode(Decode(b)) = b through every encoder view.
	if h := s.Hex(); h != hex.EncodeToString(b) {
		return "Hex/differs-from-Encode", fmt.Sprintf("input %x hex %s", b, h)
	}

	if m, err := s.MarshalBinary(); err != nil || !bytes.Equal(m, b) {
		return "MarshalBinary/differs-from-Encode", fmt.Sprintf("input %x marshal %x err %v", b, m, err)
	}

	return "", ""
}

// c07EncodeCase: Encode of the scalar with value v (built from raw limbs) is the canonical 32 bytes and decodes back.
func c07EncodeCase(v *big.Int) (key, detail string) {
	s := newScalar(v)
	enc := s.Encode()

	if len(enc) != 32 || !bytes.Equal(enc, ref.Bytes32(v)) {
		return "Encode/not-canonical-32-bytes", fmt.Sprintf("v=%x Encode=%x", v, enc)
	}

	t := secp256k1.NewScalar().MinusOne()
	if err := t.Decode(enc); err != nil {
		return "Decode(Encode)/rejected", fmt.Sprintf("v=%x: %v", v, err)
	}

	if t.Equal(s) != 1 || t.S != s.S {
		return "Decode(Encode)/different-scalar", fmt.Sprintf("v=%x", v)
	}

	return "", ""
}

func c07HexMalformed(h string) (key, detail string) {
	s := newScalar(big.NewInt(5))

	var err error

	if p := catchStr(func() { err = s.DecodeHex(h) }); p != "" {
		return "DecodeHex/panic", fmt.Sprintf("input %q: %s", h, p)
	}

	if err == nil {
		return "DecodeHex/accepted-malformed-hex", fmt.Sprintf("input %q", h)
	}

	return "", ""
}

func c07Strings(level int) [][]byte {
	var out [][]byte

	add := func(b []byte) { out = append(out, b) }

	// every length 0..70 with three fills
	for l := 0; l <= 70; l++ {
		z, f, pat := make([]byte, l), bytes.Repeat([]byte{0xff}, l), make([]byte, l)
		for i := range pat {
			pat[i] = byte(i + 1)
		}

		add(z)
		add(f)
		add(pat)

		// a valid scalar with extra leading / trailing bytes
		if l > 32 {
			add(append(make([]byte, l-32), ref.Bytes32(big.NewInt(7))...))
		}
	}

	add(nil)

	// lengths that are 32 modulo 2^8 or 2^16 (a length carried in a narrow integer would wrap to 32), and neighbours
	for _, l := range []int{255, 256, 257, 287, 288, 289, 65535, 65536, 65568, 65569} {
		b := make([]byte, l)
		copy(b[l-32:], ref.Bytes32(big.NewInt(7)))
		add(b)

		c := make([]byte, l)
		copy(c, ref.Bytes32(big.NewInt(7)))
		add(c)
	}

	// limb products
	for _, s := range alpha.Strings256(ref.N, 2*level+1) {
		add(ref.Bytes32(s))
	}

	// window around n
	w := int64(1 << 9)
	if level >= 1 {
		w = 1 << 16
	}

	for d := -w; d <= w; d++ {
		add(ref.Bytes32(new(big.Int).Add(ref.N, big.NewInt(d))))
	}

	// single-limb deviations from n, 2^256-1, p
	nl := ref.Limbs(ref.N)
	for i := 0; i < 4; i++ {
		for _, d := range []uint64{1, ^uint64(0)} {
			l := nl
			l[i] += d
			add(ref.Bytes32(ref.FromLimbs(l)))
		}
	}

	add(ref.Bytes32(new(big.Int).Sub(ref.Two256(), big.NewInt(1))))
	add(ref.Bytes32(ref.P))

	for _, v := range alpha.WithWitnesses(alpha.Values(ref.N, 2*level), ref.N) {
		add(ref.Bytes32(v.V))
	}

	return out
}

// C07 checks scalar encodings and decoders.
func C07(r *ev.Report) {
	level := 0
	if ev.Thorough() {
		level = 1
	}

	strs := c07Strings(level)
	prevs := []*big.Int{big.NewInt(0), new(big.Int).Sub(ref.N, big.NewInt(1))}

	r.Rule("every byte string of the alphabet (all lengths 0..70 x fills, limb products, the full window around n, single-limb deviations from n, canonical encodings of V_n) x 4 decoders x 2 prior receiver values; Encode/round trip for every member of V_n and K; malformed hex alphabet; non-trivial = 32-byte input")
	r.Bound("strings", len(strs))
	r.States.Add(int64(len(strs)))

	scratch := make([][]byte, ev.Workers()+1)
	for i := range scratch {
		scratch[i] = make([]byte, 96)
	}

	r.ParFor(len(strs), func(w, i int) {
		b := strs[i]

		for di := range scalarDecoders {
			for pi, prev := range prevs {
				r.Transitions.Add(1)
				r.Evals.Add(1)

				var sc []byte
				if pi == 1 {
					sc = scratch[w]
				}

				key, detail := c07DecodeCase(di, b, prev, sc)
				if key != "" {
					r.Violation(key, detail, Case{"op": "decode", "decoder": fmt.Sprint(di), "input": hb(b), "prev": hx(prev)})
				}
			}
		}

		switch {
		case len(b) != 32:
			r.Count("rejected_length", 1)
		case ref.OS2IP(b).Cmp(ref.N) >= 0:
			r.Count("rejected_too_big", 1)
			r.Distinct.Add(1)
		default:
			r.Count("accepted", 1)
			r.Distinct.Add(1)
		}
	})

	vals := alpha.Scalars(level + 1)
	for _, v := range alpha.WithWitnesses(alpha.Values(ref.N, level), ref.N) {
		vals = append(vals, v.V)
	}

	r.Bound("encode_values", len(vals))
	r.States.Add(int64(len(vals)))

	r.ParFor(len(vals), func(_, i int) {
		r.Transitions.Add(1)
		r.Evals.Add(1)

		if key, detail := c07EncodeCase(vals[i]); key != "" {
			r.Violation(key, detail, Case{"op": "encode", "v": hx(vals[i])})
		}
	})

	good := hex.EncodeToString(ref.Bytes32(big.NewInt(0x1234)))
	bad := []string{good[:63], good + "0", "0x" + good[2:], "g" + good[1:], good[:31] + "z" + good[32:], good[:63] + " ", " " + good[:63], strings.Repeat("zz", 32), "0", "zz"}

	for _, g := range []string{good, hex.EncodeToString(ref.Bytes32(new(big.Int).Sub(ref.N, big.NewInt(1))))} {
		for _, pos := range []int{0, 1, len(g) / 2, len(g) - 2, len(g) - 1} {
			for c := 0; c < 256; c++ {
				if isHexDigit(byte(c)) {
					continue
				}

				bad = append(bad, g[:pos]+string([]byte{byte(c)})+g[pos+1:])
			}
		}

		// one extra byte of any value after a complete encoding
		for c := 0; c < 256; c++ {
			bad = append(bad, g+string([]byte{byte(c)}))
		}
	}

	for _, h := range bad {
		r.Transitions.Add(1)
		r.Evals.Add(1)
		r.Count("malformed_hex", 1)

		if key, detail := c07HexMalformed(h); key != "" {
			r.Violation(key, detail, Case{"op": "hex", "h": h})
		}
	}

	r.Sample(Case{"op": "decode", "decoder": "0", "input": hb(ref.Bytes32(ref.N)), "prev": "0"})
	r.Sample(Case{"op": "decode", "decoder": "2", "input": hb(ref.Bytes32(new(big.Int).Sub(ref.N, big.NewInt(1)))), "prev": "0"})
	r.Sample(Case{"op": "encode", "v": hx(vals[len(vals)/2])})
	r.RequireNonVacuous("accepted", "rejected_too_big", "rejected_length")
}

func init() {
	Parts["C07"] = Part{"C07", C07}
	Replayers["C07"] = func(c Case) (bool, string) {
		if c["op"] == "persist" {
			return Replayers["C10"](c)
		}

		var key, detail string

		switch c["op"] {
		case "decode":
			var di int
			fmt.Sscan(c["decoder"], &di)
			key, detail = c07DecodeCase(di, unhb(c["input"]), unhx(c["prev"]), nil)
		case "encode":
			key, detail = c07EncodeCase(unhx(c["v"]))
		case "hex":
			key, detail = c07HexMalformed(c["h"])
		}

		return key == "", key + " " + detail
	}
}
