package checks

import (
	"fmt"

	secp256k1 "github.com/bytemare/secp256k1"
	"github.com/bytemare/secp256k1/internal/verif/ev"
	"github.com/bytemare/secp256k1/internal/verif/ref"
)

// c02Case executes one group operation on freshly built representations.
// op: Add, Subtract, Double, Negate, Add(self), Subtract(self), Add(nil), Subtract(nil), Add(copy), Subtract(copy).
func c02Case(op string, a, b Rep) (key, detail string) {
	ea, eb := newElement(a), newElement(b)
	rb := rawOf(eb)
	ra := rawOf(ea)

	var (
		want ref.Pt
		ret  *secp256k1.Element
	)

	pan := catchStr(func() {
		switch op {
		case "Add":
			ret, want = ea.Add(eb), ref.Secp.Add(a.P, b.P)
		case "Subtract":
			ret, want = ea.Subtract(eb), ref.Secp.Sub(a.P, b.P)
		case "Double":
			ret, want = ea.Double(), ref.Secp.Double(a.P)
		case "Negate":
			ret, want = ea.Negate(), ref.Secp.Neg(a.P)
		case "Add(self)":
			ret, want = ea.Add(ea), ref.Secp.Double(a.P)
		case "Subtract(self)":
			ret, want = ea.Subtract(ea), ref.Infinity()
		case "Add(nil)":
			ret, want = ea.Add(nil), a.P
		case "Subtract(nil)":
			ret, want = ea.Subtract(nil), a.P
		default:
			panic("unknown op " + op)
		}
	})
	if pan != "" {
		return op + "/panic", pan
	}

	desc := func() string {
		return fmt.Sprintf("A=%s lambdaA=%x B=%s lambdaB=%x", ptStr(a.P), a.L, ptStr(b.P), b.L)
	}

	if ret != ea {
		return op + "/returns-other-pointer", desc()
	}

	if ok, why := elementIs(ea, want); !ok {
		return op + "/wrong-result", desc() + ": " + why
	}

	if (op == "Add(nil)" || op == "Subtract(nil)") && rawOf(ea) != ra {
		return op + "/receiver-changed", desc()
	}

	if rawOf(eb) != rb {
		return op + "/argument-changed", desc()
	}

	return "", ""
}

var c02PairOps = []string{"Add", "Subtract"}
var c02UnaryOps = []string{"Double", "Negate", "Add(self)", "Subtract(self)", "Add(nil)", "Subtract(nil)"}

// C02real checks the group law on all ordered pairs of the representation alphabet of the real curve.
func C02real(r *ev.Report) {
	nLam := 8
	if ev.Thorough() {
		nLam = 0
	}

	reps := Reps(nLam)
	r.Rule("real curve: Add/Subtract on all ordered pairs of (point alphabet x projective scalings) incl. every identity representation (0:l:0); Double, Negate, aliased Add/Subtract and nil argument on every representation; oracle = affine chord-and-tangent law in math/big; non-trivial = result is the identity, or operands are the same point / opposite points in different scalings")
	r.Bound("representations", len(reps))
	r.Bound("points", len(Points()))
	r.States.Add(int64(len(reps)))

	r.ParFor(len(reps), func(_, i int) {
		a := reps[i]

		for _, b := range reps {
			for _, op := range c02PairOps {
				r.Transitions.Add(1)
				r.Evals.Add(1)

				if key, detail := c02Case(op, a.Rep, b.Rep); key != "" {
					c := Case{"op": op}
					repCase("a", a.Rep, c)
					repCase("b", b.Rep, c)
					r.Violation(key, detail, c)
				}
			}

			switch {
			case a.P.Inf || b.P.Inf:
				r.Count("identity_operand", 1)
			case a.P.Eq(b.P):
				r.Count("same_point", 1)
				r.Distinct.Add(1)

				if a.L.Cmp(b.L) != 0 {
					r.Count("same_point_different_scaling", 1)
				}
			case a.P.Eq(ref.Secp.Neg(b.P)):
				r.Count("opposite_points", 1)
				r.Distinct.Add(1)
			case a.P.X.Cmp(b.P.X) != 0 && a.P.Y.Cmp(b.P.Y) == 0:
				r.Count("same_y_different_x", 1)
			}
		}

		for _, op := range c02UnaryOps {
			r.Transitions.Add(1)
			r.Evals.Add(1)

			if key, detail := c02Case(op, a.Rep, a.Rep); key != "" {
				c := Case{"op": op}
				repCase("a", a.Rep, c)
				repCase("b", a.Rep, c)
				r.Violation(key, detail, c)
			}
		}
	})

	// coordinate-pattern representations: unary forms on each, and Add/Subtract against a few partners in both orders
	ext := append(CoordPatternReps(), ConstMulBoundaryReps()...)
	partners := []Rep{reps[0].Rep, {ref.G(), ref.I(1)}, {ref.Secp.Neg(ref.G()), ref.I(2)}, {HPoint(), ref.I(3)}, {ref.Secp.Neg(HPoint()), ref.I(1)}, {ref.Secp.Double(ref.G()), ref.I(5)}}
	r.Bound("coordinate_pattern_representations", len(ext))
	r.States.Add(int64(len(ext)))

	r.ParFor(len(ext), func(_, i int) {
		a := ext[i]

		for _, op := range c02UnaryOps {
			r.Transitions.Add(1)
			r.Evals.Add(1)

			if key, detail := c02Case(op, a, a); key != "" {
				c := Case{"op": op}
				repCase("a", a, c)
				repCase("b", a, c)
				r.Violation(key, detail, c)
			}
		}

		for _, b := range partners {
			for _, op := range c02PairOps {
				for _, pair := range [][2]Rep{{a, b}, {b, a}} {
					r.Transitions.Add(1)
					r.Evals.Add(1)

					if key, detail := c02Case(op, pair[0], pair[1]); key != "" {
						c := Case{"op": op}
						repCase("a", pair[0], c)
						repCase("b", pair[1], c)
						r.Violation(key, detail, c)
					}
				}
			}
		}

		r.Count("coordinate_pattern_cases", 1)
	})

	c := Case{"op": "Add"}
	repCase("a", reps[4].Rep, c)
	repCase("b", reps[7].Rep, c)
	r.Sample(c)
	r.RequireNonVacuous("identity_operand", "same_point_different_scaling", "opposite_points", "same_y_different_x")
}

func init() {
	Parts["C02real"] = Part{"C02", C02real}
	Replayers["C02"] = func(c Case) (bool, string) {
		switch c["op"] {
		case "bin", "equals", "unary", "predicate", "neighbour", "sqrt", "parse", "wide":
			return Replayers["C12"](c)
		}

		if c["op"] == "persist" {
			return Replayers["C10"](c)
		}

		key, detail := c02Case(c["op"], repFromCase("a", c), repFromCase("b", c))
		return key == "", key + " " + detail
	}
}
