package checks

import (
	"fmt"
	"math/big"
	"math/rand"
	"sync"

	"github.com/bytemare/secp256k1/internal/verif/alpha"
	"github.com/bytemare/secp256k1/internal/verif/ev"
	"github.com/bytemare/secp256k1/internal/verif/ref"
)

// NamedPt is a member of the point alphabet.
type NamedPt struct {
	Name string
	P    ref.Pt
}

var (
	ptsOnce sync.Once
	ptsAll  []NamedPt
)

func nG(k *big.Int) ref.Pt { return ref.Secp.Mul(ref.Mod(k, ref.N), ref.G()) }

// beta returns a primitive cube root of unity modulo p.
func beta() *big.Int {
	e := new(big.Int).Div(new(big.Int).Sub(ref.P, big.NewInt(1)), big.NewInt(3))

	for a := int64(2); ; a++ {
		b := ref.Fp.Exp(big.NewInt(a), e)
		if b.Cmp(big.NewInt(1)) != 0 {
			return b
		}
	}
}

// cubeRoot returns a cube root of a modulo p (p = 7 mod 9), if one exists.
func cubeRoot(a *big.Int) (*big.Int, bool) {
	e := new(big.Int).Div(new(big.Int).Add(ref.P, big.NewInt(2)), big.NewInt(9))
	r := ref.Fp.Exp(a, e)

	if ref.Fp.Mul(ref.Fp.Sqr(r), r).Cmp(ref.Mod(a, ref.P)) == 0 {
		return r, true
	}

	return nil, false
}

// HPoint is a point with unknown discrete logarithm: the oracle's hash_to_curve of a fixed message.
func HPoint() ref.Pt {
	return ref.HashToCurve([]byte("verif point H"), []byte("VERIF-V01-CS02-with-secp256k1_XMD:SHA-256_SSWU_RO_"))
}

// Points returns the point alphabet of DESIGN.md 3.3 (about 40 points, identity first).
func Points() []NamedPt {
	ptsOnce.Do(func() {
		add := func(name string, p ref.Pt) {
			if !ref.Secp.On(p) {
				panic("point alphabet: " + name + " off curve")
			}

			for _, q := range ptsAll {
				if q.P.Eq(p) {
					return
				}
			}

			ptsAll = append(ptsAll, NamedPt{name, p})
		}

		g, h := ref.G(), HPoint()
		add("O", ref.Infinity())
		add("G", g)
		add("-G", ref.Secp.Neg(g))

		for k := int64(2); k <= 3; k++ {
			p := nG(big.NewInt(k))
			add(fmt.Sprintf("%dG", k), p)
			add(fmt.Sprintf("-%dG", k), ref.Secp.Neg(p))
		}

		half := new(big.Int).Rsh(ref.N, 1)
		add("[(n-1)/2]G", nG(half))
		add("[(n+1)/2]G", nG(new(big.Int).Add(half, big.NewInt(1))))
		add("[n-2]G", nG(new(big.Int).Sub(ref.N, big.NewInt(2))))
		add("H", h)
		add("-H", ref.Secp.Neg(h))
		add("G+H", ref.Secp.Add(g, h))
		add("G-H", ref.Secp.Sub(g, h))
		add("2H", ref.Secp.Double(h))

		b := beta()
		b2 := ref.Fp.Sqr(b)

		for _, np := range []NamedPt{{"G", g}, {"H", h}} {
			add("beta*"+np.Name, ref.Pt{X: ref.Fp.Mul(b, np.P.X), Y: np.P.Y})
			add("beta^2*"+np.Name, ref.Pt{X: ref.Fp.Mul(b2, np.P.X), Y: np.P.Y})
			add("-beta*"+np.Name, ref.Pt{X: ref.Fp.Mul(b, np.P.X), Y: ref.Fp.Neg(np.P.Y)})
		}

		// tiny x (x + p < 2^256 is a parseable non-canonical alias)
		cnt := 0
		for x := int64(1); cnt < 3; x++ {
			if p, ok := ref.Secp.LiftX(big.NewInt(x), 0); ok {
				add(fmt.Sprintf("x=%d,even", x), p)
				add(fmt.Sprintf("x=%d,odd", x), ref.Secp.Neg(p))
				cnt++
			}
		}

		// tiny y
		cnt = 0
		for y := int64(1); cnt < 3; y++ {
			rhs := ref.Fp.Sub(big.NewInt(y*y), big.NewInt(7))
			if x, ok := cubeRoot(rhs); ok {
				add(fmt.Sprintf("y=%d", y), ref.Pt{X: x, Y: big.NewInt(y)})
				add(fmt.Sprintf("y=-%d", y), ref.Pt{X: x, Y: ref.Fp.Neg(big.NewInt(y))})
				cnt++
			}
		}

		// x with many set bits / near p
		for d := int64(1); ; d++ {
			if p, ok := ref.Secp.LiftX(new(big.Int).Sub(ref.P, big.NewInt(d)), 1); ok {
				add(fmt.Sprintf("x=p-%d", d), p)
				break
			}
		}

		if seed := ev.Seed(); seed != 0 {
			rng := rand.New(rand.NewSource(seed))
			for i := 0; i < 2; i++ {
				k := new(big.Int).Rand(rng, ref.N)
				add(fmt.Sprintf("seeded[%x]G", k), nG(k))
			}
		}
	})

	return ptsAll
}

// Lambdas returns the projective scalings used on the real curve, most diverse first (callers may take a prefix).
// Value-structured ones (1, 2, p-1, 2^128, R, R^-1) and raw-structured ones: lambda whose *Montgomery limbs* (what
// the code actually stores in Z) are a sparse pattern - a single limb equal to 2^32, 2^63 or 1 - so that zero
// tests and comparisons that look at only part of a limb are exposed.
func Lambdas() []*big.Int {
	raw := func(l [4]uint64) *big.Int { return ref.Unmont(l, ref.P) }
	out := []*big.Int{
		big.NewInt(1),
		raw([4]uint64{1 << 32, 0, 0, 0}),
		new(big.Int).Sub(ref.P, big.NewInt(1)),
		big.NewInt(2),
		raw([4]uint64{0, 0, 0, 1 << 32}),
		new(big.Int).Lsh(big.NewInt(1), 128),
		ref.Mod(ref.Two256(), ref.P),
		raw([4]uint64{1 << 63, 0, 0, 0}),
		ref.Mod(new(big.Int).ModInverse(ref.Two256(), ref.P), ref.P),
		raw([4]uint64{0, 1, 0, 0}),
		raw([4]uint64{0, 0, 1 << 63, 0}),
		raw([4]uint64{0xffffffff00000000, 0, 0, 0}),
	}

	if seed := ev.Seed(); seed != 0 {
		rng := rand.New(rand.NewSource(seed + 1))
		l := new(big.Int).Rand(rng, ref.P)

		if l.Sign() != 0 {
			out = append(out, l)
		}
	}

	return out
}

// CoordPatternReps returns representations of G and H whose stored X resp. Y limbs are a member of the level-0
// limb-product alphabet (every limb one of 0, 1, 2^64-1, p_i): the field arithmetic underneath the group law is
// then driven with operands at its carry and borrow boundaries (a hand-written negation that forgets the borrow
// out of the low limb, say), which happens for a random point only with probability about 2^-32.
func CoordPatternReps() []Rep {
	var out []Rep

	g, h := ref.G(), HPoint()

	for _, pat := range alpha.Strings256(ref.P, 0) {
		if pat.Sign() == 0 || pat.Cmp(ref.P) >= 0 {
			continue
		}

		want := ref.Unmont(ref.Limbs(pat), ref.P)

		for _, pt := range []ref.Pt{g, h} {
			for _, coord := range []*big.Int{pt.X, pt.Y} {
				out = append(out, Rep{pt, ref.Fp.Mul(want, ref.Fp.Inv0(coord))})
			}
		}
	}

	return out
}

// ConstMulBoundaryReps returns representations of G and H whose stored Z limbs sit at the carry boundaries of a
// multiplication by one of the small curve constants (3b = 21, b = 7, 3, 2): floor(k * 2^256 / c) + {-2^20, -1, 0, 1}
// for k = 1..c-1. A hand-optimised "multiply by 3b" that folds its carry wrongly only fails in narrow windows
// around these values. In Add with a partner whose Z is 1 the product Z1*Z2, which is what gets multiplied by 3b,
// has exactly these stored limbs.
func ConstMulBoundaryReps() []Rep {
	var out []Rep

	g, h := ref.G(), HPoint()

	for _, c := range []int64{21, 7, 3, 2} {
		for k := int64(1); k < c; k++ {
			base := new(big.Int).Div(new(big.Int).Mul(big.NewInt(k), ref.Two256()), big.NewInt(c))

			for _, d := range []int64{-(1 << 20), -1, 0, 1} {
				pat := new(big.Int).Add(base, big.NewInt(d))
				if pat.Sign() <= 0 || pat.Cmp(ref.P) >= 0 {
					continue
				}

				l := ref.Unmont(ref.Limbs(pat), ref.P)
				out = append(out, Rep{g, l}, Rep{h, l})
			}
		}
	}

	return out
}

// IdxRep is a representation together with the index of its point in Points().
type IdxRep struct {
	Rep
	Pi int
}

// Reps returns Points() x the first nLam scalings.
func Reps(nLam int) []IdxRep {
	lams := Lambdas()
	if nLam > 0 && nLam < len(lams) {
		lams = lams[:nLam]
	}

	var out []IdxRep

	for i, np := range Points() {
		for _, l := range lams {
			out = append(out, IdxRep{Rep{np.P, l}, i})
		}
	}

	// point-specific scalings that make the stored X resp. Y limbs of G and H a sparse pattern ({1,0,0,0}, the
	// Montgomery form of 1, {2^32,0,0,0}): fast paths keyed on a coordinate "being one" or "being small" fire here
	if nLam == 0 || nLam >= 4 {
		patterns := [][4]uint64{{1, 0, 0, 0}, ref.Mont(big.NewInt(1), ref.P), {1 << 32, 0, 0, 0}}

		for i, np := range Points() {
			if np.Name != "G" && np.Name != "H" {
				continue
			}

			for _, pat := range patterns {
				want := ref.Unmont(pat, ref.P) // the value whose stored limbs are pat
				for _, coord := range []*big.Int{np.P.X, np.P.Y} {
					l := ref.Fp.Mul(want, ref.Fp.Inv0(coord))
					if l.Sign() != 0 {
						out = append(out, IdxRep{Rep{np.P, l}, i})
					}
				}
			}
		}
	}

	return out
}
