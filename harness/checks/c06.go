package checks

import (
	"fmt"
	"math/big"

	secp256k1 "github.com/bytemare/secp256k1"
	"github.com/bytemare/secp256k1/internal/verif/alpha"
	"github.com/bytemare/secp256k1/internal/verif/ev"
	"github.com/bytemare/secp256k1/internal/verif/ref"
)

// scalar binary operations and their oracles.
var c06Bin = []struct {
	name string
	op   func(s, t *secp256k1.Scalar) *secp256k1.Scalar
	or   func(a, b *big.Int) *big.Int
}{
	{"Add", (*secp256k1.Scalar).Add, ref.Zn.Add},
	{"Subtract", (*secp256k1.Scalar).Subtract, ref.Zn.Sub},
	{"Multiply", (*secp256k1.Scalar).Multiply, ref.Zn.Mul},
}

// c06BinCase runs s.Op(t) in one aliasing shape: "distinct" (t is its own variable), "same" (t is s itself).
func c06BinCase(opi int, a, b alpha.Val, shape string) (key, detail string) {
	o := c06Bin[opi]
	s := scalarRaw(a.Raw)

	var t *secp256k1.Scalar

	if shape == "same" {
		t = s
	} else {
		t = scalarRaw(b.Raw)
	}

	want := o.or(a.V, b.V)
	ret := o.op(s, t)

	if ret != s {
		return o.name + "/returns-other-pointer", fmt.Sprintf("a=%x b=%x", a.V, b.V)
	}

	if ok, why := scalarIs(s, want); !ok {
		return o.name + "/wrong-result/" + shape, fmt.Sprintf("a=%x b=%x want %x: %s", a.V, b.V, want, why)
	}

	if shape != "same" && t.S != b.Raw {
		return o.name + "/operand-changed", fmt.Sprintf("a=%x b=%x", a.V, b.V)
	}

	return "", ""
}

func c06UnaryCase(name string, a alpha.Val) (key, detail string) {
	s := scalarRaw(a.Raw)

	var want *big.Int

	switch name {
	case "Square":
		s.Square()
		want = ref.Zn.Sqr(a.V)
	case "Invert":
		s.Invert()
		want = ref.Zn.Inv0(a.V)
	default:
		panic(name)
	}

	if ok, why := scalarIs(s, want); !ok {
		return name + "/wrong-result", fmt.Sprintf("a=%x want %x: %s", a.V, want, why)
	}

	if name == "Invert" && a.V.Sign() != 0 {
		// the property's own wording: s * s^-1 = 1, evaluated with the library's multiplication
		if p := scalarRaw(a.Raw).Multiply(s); !p.IsOne() || !bytesIsOne(p.Encode()) {
			return "Invert/s-times-inverse-not-one", fmt.Sprintf("a=%x", a.V)
		}
	}

	return "", ""
}

func bytesIsOne(b []byte) bool {
	if len(b) != 32 || b[31] != 1 {
		return false
	}

	for _, x := range b[:31] {
		if x != 0 {
			return false
		}
	}

	return true
}

func c06PowCase(a alpha.Val, t *big.Int, shape string) (key, detail string) {
	s := scalarRaw(a.Raw)

	var (
		e    *secp256k1.Scalar
		want *big.Int
	)

	switch shape {
	case "nil":
		want = big.NewInt(1)
	case "same":
		e = s
		want = ref.Zn.Exp(a.V, a.V)
		t = a.V
	default:
		e = newScalar(t)
		want = ref.Zn.Exp(a.V, t)
	}

	eBefore := [4]uint64{}
	if e != nil {
		eBefore = e.S
	}

	if p := catchStr(func() { s.Pow(e) }); p != "" {
		return "Pow/panic", fmt.Sprintf("s=%x t=%v: %s", a.V, t, p)
	}

	if ok, why := scalarIs(s, want); !ok {
		return "Pow/wrong-result/" + shape, fmt.Sprintf("s=%x t=%v want %x: %s", a.V, t, want, why)
	}

	if shape == "distinct" && e.S != eBefore {
		return "Pow/operand-changed", fmt.Sprintf("s=%x t=%x", a.V, t)
	}

	return "", ""
}

func c06SetUint(prev alpha.Val, u uint64) (key, detail string) {
	s := scalarRaw(prev.Raw)
	if s.SetUInt64(u) != s {
		return "SetUInt64/returns-other-pointer", ""
	}

	if ok, why := scalarIs(s, new(big.Int).SetUint64(u)); !ok {
		return "SetUInt64/wrong-result", fmt.Sprintf("u=%d: %s", u, why)
	}

	return "", ""
}

func c06Const(name string, prev alpha.Val) (key, detail string) {
	s := scalarRaw(prev.Raw)

	var want *big.Int

	switch name {
	case "Zero":
		s.Zero()
		want = big.NewInt(0)
	case "One":
		s.One()
		want = big.NewInt(1)
	case "MinusOne":
		s.MinusOne()
		want = new(big.Int).Sub(ref.N, big.NewInt(1))
	case "Add(nil)":
		s.Add(nil)
		want = prev.V
	case "Subtract(nil)":
		s.Subtract(nil)
		want = prev.V
	case "Multiply(nil)":
		s.Multiply(nil)
		want = big.NewInt(0)
	case "Set(nil)":
		s.Set(nil)
		want = big.NewInt(0)
	case "NewScalar":
		s = secp256k1.NewScalar()
		want = big.NewInt(0)
	}

	if ok, why := scalarIs(s, want); !ok {
		return name + "/wrong-result", fmt.Sprintf("prev=%x: %s", prev.V, why)
	}

	return "", ""
}

var c06Consts = []string{"Zero", "One", "MinusOne", "Add(nil)", "Subtract(nil)", "Multiply(nil)", "Set(nil)", "NewScalar"}

func uint64Alphabet() []uint64 {
	set := map[uint64]bool{}

	for i := uint(0); i < 64; i++ {
		p := uint64(1) << i
		set[p], set[p-1], set[p+1], set[^p] = true, true, true, true
	}

	for _, ls := range alpha.Limbs(ref.N, 2) {
		for _, l := range ls {
			set[l] = true
		}
	}

	for i := uint64(0); i < 300; i++ {
		set[i], set[^i] = true, true
	}

	// solved members: boundary quotient digits, and low limbs that produce them in the first reduction round
	wit := alpha.ReductionWitnesses(ref.N)
	for _, l := range wit.Digits {
		set[l] = true
	}

	for _, l := range wit.LowLimbs {
		set[l] = true
	}

	// unstructured values: four per fixed 256-bit integer
	for _, v := range alpha.Fixed(128, "uint64") {
		for _, l := range ref.Limbs(v) {
			set[l] = true
		}
	}

	out := make([]uint64, 0, len(set))
	for v := range set {
		out = append(out, v)
	}

	return out
}

func powExponents() []*big.Int {
	n := ref.N
	out := []*big.Int{ref.I(0), ref.I(1), ref.I(2), ref.I(3), ref.I(65537)}
	out = append(out, new(big.Int).Sub(n, ref.I(1)), new(big.Int).Sub(n, ref.I(2)), new(big.Int).Rsh(n, 1),
		new(big.Int).Lsh(ref.I(1), 255))

	for i := uint(4); i < 256; i += 17 {
		out = append(out, new(big.Int).Lsh(ref.I(1), i))
	}

	// exponents whose *Montgomery limbs* are a limb pattern (a shortcut keyed on the stored form of the exponent
	// sees a small number there), the domain constants, and exponents with an all-zero interior word
	for _, st := range alpha.Strings256(n, 0) {
		if st.Cmp(n) < 0 {
			out = append(out, ref.Unmont(ref.Limbs(st), n))
		}
	}

	out = append(out, alpha.DomainConstants(n)...)
	out = append(out, alpha.StoredNeighbours(n)...)

	for _, l := range [][4]uint64{{5, 0, 7, 0}, {5, 0, 0, 7}, {0, 9, 0, 7}, {^uint64(0), 0, 0, 1}} {
		out = append(out, ref.FromLimbs(l))
	}

	return out
}

// C06 checks the scalar arithmetic on V_n x V_n.
func C06(r *ev.Report) {
	thorough := ev.Thorough() && !c06Seam

	level := 0
	if thorough {
		level = 1
	}

	vals := alpha.Values(ref.N, level)
	pairVals := vals

	if thorough {
		pairVals = alpha.Thin(alpha.Values(ref.N, 2), 16000)
	}

	if c06Light && !thorough {
		pairVals = alpha.Thin(vals, 400) // seam under another property: lighter pair product, same unary sweeps
	}

	wit := alpha.ReductionWitnesses(ref.N)
	vals = alpha.WithWitnesses(vals, ref.N)

	r.Rule("Add/Subtract/Multiply on all ordered pairs of the value alphabet V_n (canonical- and Montgomery-structured limb products, closed under negation and +-1) in the aliasing shapes distinct/same; Square, Invert on all of V_n; Pow on a slice of V_n x exponent alphabet incl. nil and s.Pow(s); SetUInt64 on a uint64 alphabet (incl. low limbs that produce boundary quotient digits); unary sweeps also on the solved members (operands whose Montgomery quotient digits are structured, final-subtraction inputs of ToMontgomery), Multiply also on the solved quotient pairs; constants and nil operands from every prior receiver value; non-trivial = both operands >= 2^64")
	r.Bound("values", len(vals))
	r.Bound("pair_values", len(pairVals))
	r.Bound("solved_quotient_pairs", len(wit.Pairs))
	r.Bound("solved_from_montgomery", len(wit.FromMont))
	r.Bound("solved_to_montgomery", len(wit.ToMont))
	r.States.Add(int64(len(vals)))

	r.ParFor(len(wit.Pairs), func(_, i int) {
		a := alpha.Val{V: wit.Pairs[i][0], Raw: ref.Mont(wit.Pairs[i][0], ref.N)}
		b := alpha.Val{V: wit.Pairs[i][1], Raw: ref.Mont(wit.Pairs[i][1], ref.N)}

		for opi := range c06Bin {
			for _, ab := range [][2]alpha.Val{{a, b}, {b, a}} {
				r.Transitions.Add(1)
				r.Evals.Add(1)

				if key, detail := c06BinCase(opi, ab[0], ab[1], "distinct"); key != "" {
					r.Violation(key, detail, Case{"op": c06Bin[opi].name, "a": hx(ab[0].V), "b": hx(ab[1].V), "shape": "distinct"})
				}
			}
		}
	})

	r.ParFor(len(pairVals), func(_, i int) {
		a := pairVals[i]
		local := int64(0)
		nontriv := int64(0)

		for opi := range c06Bin {
			for _, b := range pairVals {
				local++

				if a.V.BitLen() > 64 && b.V.BitLen() > 64 {
					nontriv++
				}

				if key, detail := c06BinCase(opi, a, b, "distinct"); key != "" {
					r.Violation(key, detail, Case{"op": c06Bin[opi].name, "a": hx(a.V), "b": hx(b.V), "shape": "distinct"})
				}
			}

			local++

			if key, detail := c06BinCase(opi, a, a, "same"); key != "" {
				r.Violation(key, detail, Case{"op": c06Bin[opi].name, "a": hx(a.V), "b": hx(a.V), "shape": "same"})
			}
		}

		r.Transitions.Add(local)
		r.Evals.Add(local)
		r.Distinct.Add(nontriv)
	})

	r.ParFor(len(vals), func(_, i int) {
		a := vals[i]

		for _, name := range []string{"Square", "Invert"} {
			r.Transitions.Add(1)
			r.Evals.Add(1)

			if key, detail := c06UnaryCase(name, a); key != "" {
				r.Violation(key, detail, Case{"op": name, "a": hx(a.V)})
			}
		}

		for _, name := range c06Consts {
			r.Transitions.Add(1)
			r.Evals.Add(1)

			if key, detail := c06Const(name, a); key != "" {
				r.Violation(key, detail, Case{"op": name, "a": hx(a.V)})
			}
		}
	})

	// Invert on the division-step steered members (alpha/divstep.go), in both readings: the member as the canonical
	// value and the member as the stored (Montgomery) limbs - an inversion by division steps may run on either.
	steered := c06Steered(ref.N, thorough)
	r.Bound("divstep_steered_members", len(steered))
	r.Rule("Invert also on the division-step steered members (operands whose 2-adic digits follow every periodic parity word up to the period bound for 256 division steps), as canonical value and as stored limbs")

	r.ParFor(len(steered), func(_, i int) {
		r.Transitions.Add(1)
		r.Evals.Add(1)
		r.Distinct.Add(1)

		if key, detail := c06UnaryCase("Invert", steered[i]); key != "" {
			r.Violation(key, detail, Case{"op": "Invert", "a": hx(steered[i].V)})
		}
	})

	// Pow
	powVals := alpha.Thin(vals, 300)
	if thorough {
		powVals = alpha.Thin(vals, 8000)
	}

	exps := powExponents()
	r.Bound("pow_bases", len(powVals))
	r.Bound("pow_exponents", len(exps)+2)

	r.ParFor(len(powVals), func(_, i int) {
		a := powVals[i]

		for _, t := range exps {
			r.Transitions.Add(1)
			r.Evals.Add(1)

			if key, detail := c06PowCase(a, t, "distinct"); key != "" {
				r.Violation(key, detail, Case{"op": "Pow", "a": hx(a.V), "t": hx(t), "shape": "distinct"})
			}
		}

		for _, shape := range []string{"nil", "same"} {
			r.Transitions.Add(1)
			r.Evals.Add(1)

			if key, detail := c06PowCase(a, nil, shape); key != "" {
				r.Violation(key, detail, Case{"op": "Pow", "a": hx(a.V), "shape": shape})
			}
		}
	})

	// SetUInt64
	us := uint64Alphabet()
	prevs := []alpha.Val{vals[0], vals[len(vals)-1], vals[len(vals)/2]}
	r.Bound("uint64_values", len(us))

	r.ParFor(len(us), func(_, i int) {
		for _, p := range prevs {
			r.Transitions.Add(1)
			r.Evals.Add(1)

			if key, detail := c06SetUint(p, us[i]); key != "" {
				r.Violation(key, detail, Case{"op": "SetUInt64", "a": hx(p.V), "u": fmt.Sprint(us[i])})
			}
		}
	})

	r.Sample(Case{"op": "Multiply", "a": hx(vals[len(vals)-1].V), "b": hx(vals[len(vals)/2].V), "shape": "distinct"})
	r.Sample(Case{"op": "Invert", "a": hx(vals[len(vals)/3].V)})
	r.Sample(Case{"op": "Pow", "a": hx(powVals[len(powVals)/2].V), "t": hx(exps[5]), "shape": "distinct"})
}

func valOf(v *big.Int) alpha.Val {
	v = ref.Mod(v, ref.N)
	return alpha.Val{V: v, Raw: ref.Mont(v, ref.N)}
}

// c06Steered returns the division-step steered members for m as values, in both readings.
func c06Steered(m *big.Int, thorough bool) []alpha.Val {
	period := 8
	if thorough {
		period = 12
	}

	xs := alpha.DivstepSteered(m, period)
	out := make([]alpha.Val, 0, 2*len(xs))

	for _, x := range xs {
		out = append(out, alpha.Val{V: x, Raw: ref.Mont(x, m)})
		out = append(out, alpha.Val{V: ref.Unmont(ref.Limbs(x), m), Raw: ref.Limbs(x)})
	}

	return out
}

// c06Light selects the lighter pair product used when the scalar layer is checked as a seam under another property.
var c06Light bool

// c06Seam is set when the sweep runs as a seam part (see c12Seam).
var c06Seam bool

func c06SeamLight(r *ev.Report) {
	c06Seam = true
	c06Light = !ev.Thorough()
	C06(r)
}

func c06SeamFull(r *ev.Report) {
	c06Seam = true
	C06(r)
}

func init() {
	// Bits, the ladder, comparisons and Random all sit on the Fiat scalar arithmetic and its domain conversions
	for _, pid := range []string{"C01", "C10", "C13", "C14", "C18"} {
		Parts[pid+"scalar"] = Part{pid, c06SeamLight}
	}

	// HashToScalar's wide reduction is two scalar multiplications and two additions: the scalar arithmetic is checked
	// as a seam under C09 as well (its own inputs reach a defective operand class only by brute force over SHA-256).
	Parts["C06lite"] = Part{"C06", c06SeamLight}
	Parts["C09scalar"] = Part{"C09", c06SeamFull}
	Parts["C06"] = Part{"C06", C06}
	Replayers["C06"] = func(c Case) (bool, string) {
		if c["op"] == "persist" {
			return Replayers["C10"](c)
		}

		var key, detail string

		a := valOf(unhx(c["a"]))

		switch op := c["op"]; op {
		case "Add", "Subtract", "Multiply":
			for i := range c06Bin {
				if c06Bin[i].name == op {
					key, detail = c06BinCase(i, a, valOf(unhx(c["b"])), c["shape"])
				}
			}
		case "Square", "Invert":
			key, detail = c06UnaryCase(op, a)
		case "Pow":
			var t *big.Int
			if c["t"] != "" {
				t = unhx(c["t"])
			}

			key, detail = c06PowCase(a, t, c["shape"])
		case "SetUInt64":
			var u uint64
			fmt.Sscan(c["u"], &u)
			key, detail = c06SetUint(a, u)
		default:
			key, detail = c06Const(op, a)
		}

		return key == "", key + " " + detail
	}
}
