// Package checks holds the checks that run against the real (unmodified) field: one exported function per
// property part. Each enumerates a finite space completely and compares every step with the oracles of ref.
package checks

import (
	"bytes"
	"encoding/hex"
	"fmt"
	"math/big"

	secp256k1 "github.com/bytemare/secp256k1"
	"github.com/bytemare/secp256k1/internal/verif/ev"
	"github.com/bytemare/secp256k1/internal/verif/ref"
)

// Case is a replayable description of one explored case: operation name plus hex/decimal operands.
type Case map[string]string

// Replayers maps a property id to the function that re-executes one Case without the explorer.
var Replayers = map[string]func(c Case) (ok bool, msg string){}

func hx(v *big.Int) string { return v.Text(16) }

func unhx(s string) *big.Int {
	v, ok := new(big.Int).SetString(s, 16)
	if !ok {
		panic("bad hex in replay case: " + s)
	}

	return v
}

func hb(b []byte) string { return hex.EncodeToString(b) }

func unhb(s string) []byte {
	b, err := hex.DecodeString(s)
	if err != nil {
		panic(err)
	}

	return b
}

// newScalar builds a scalar with value v without using any decoding or arithmetic of the library: the
// Montgomery limbs are computed with math/big and stored in the exported field.
func newScalar(v *big.Int) *secp256k1.Scalar {
	s := secp256k1.NewScalar()
	s.S = ref.Mont(v, ref.N)

	return s
}

func scalarRaw(raw [4]uint64) *secp256k1.Scalar {
	s := secp256k1.NewScalar()
	s.S = raw

	return s
}

// canonicalLimbs reports whether the integer formed by l is < m.
func canonicalLimbs(l [4]uint64, m [4]uint64) bool {
	for i := 3; i >= 0; i-- {
		if l[i] != m[i] {
			return l[i] < m[i]
		}
	}

	return false
}

var (
	nLimbs = ref.Limbs(ref.N)
	pLimbs = ref.Limbs(ref.P)
)

// scalarIs reports whether s holds exactly the canonical representation of v, and that Encode agrees.
func scalarIs(s *secp256k1.Scalar, v *big.Int) (bool, string) {
	if !canonicalLimbs(s.S, nLimbs) {
		return false, fmt.Sprintf("non-canonical limbs %x", s.S)
	}

	if enc := s.Encode(); !bytes.Equal(enc, ref.Bytes32(v)) {
		return false, fmt.Sprintf("Encode=%x want %x", enc, ref.Bytes32(v))
	}

	// the stored limbs themselves must be the Montgomery form of v (an encoder that answers from a memo could
	// otherwise hide a wrong or stale value)
	if s.S != ref.Mont(v, ref.N) {
		return false, fmt.Sprintf("stored limbs %x are not the representation of %x", s.S, v)
	}

	return true, ""
}

// ---- elements -------------------------------------------------------------------------------------------

// Rep is a projective representation of a point: the affine point and the scaling factor lambda != 0.
// The identity is represented as (0 : lambda : 0).
type Rep struct {
	P ref.Pt
	L *big.Int
}

// newElement builds the element (lambda x : lambda y : lambda), or (0 : lambda : 0), by writing raw limbs computed
// with math/big, so that the arithmetic under test is never used to construct its own inputs.
func newElement(r Rep) *secp256k1.Element {
	e := secp256k1.VerifBlankElement()

	if r.P.Inf {
		return secp256k1.VerifSetRaw(e, [4]uint64{}, ref.Mont(r.L, ref.P), [4]uint64{})
	}

	return secp256k1.VerifSetRaw(e,
		ref.Mont(ref.Fp.Mul(r.P.X, r.L), ref.P), ref.Mont(ref.Fp.Mul(r.P.Y, r.L), ref.P), ref.Mont(r.L, ref.P))
}

// abstract reads the raw coordinates of e and returns the group element they represent. ok is false when the
// coordinates are not a valid representation (non-canonical limbs, off the curve, or Z = 0 with X != 0 or Y = 0).
func abstract(e *secp256k1.Element) (ref.Pt, bool, string) {
	xr, yr, zr := secp256k1.VerifRaw(e)
	if !canonicalLimbs(xr, pLimbs) || !canonicalLimbs(yr, pLimbs) || !canonicalLimbs(zr, pLimbs) {
		return ref.Pt{}, false, fmt.Sprintf("non-canonical coordinate limbs %x %x %x", xr, yr, zr)
	}

	x, y, z := ref.Unmont(xr, ref.P), ref.Unmont(yr, ref.P), ref.Unmont(zr, ref.P)

	if z.Sign() == 0 {
		if x.Sign() != 0 || y.Sign() == 0 {
			return ref.Pt{}, false, fmt.Sprintf("Z=0 but (X,Y)=(%x,%x)", x, y)
		}

		return ref.Infinity(), true, ""
	}

	zi := ref.Fp.Inv0(z)
	p := ref.Pt{X: ref.Fp.Mul(x, zi), Y: ref.Fp.Mul(y, zi)}

	if !ref.Secp.On(p) {
		return p, false, fmt.Sprintf("off curve (%x,%x)", p.X, p.Y)
	}

	return p, true, ""
}

type raw3 struct{ x, y, z [4]uint64 }

func rawOf(e *secp256k1.Element) raw3 {
	x, y, z := secp256k1.VerifRaw(e)
	return raw3{x, y, z}
}

func fromRaw(r raw3) *secp256k1.Element {
	return secp256k1.VerifSetRaw(secp256k1.VerifBlankElement(), r.x, r.y, r.z)
}

// elementIs checks that e is a valid representation of want and that its canonical encoding is the oracle's.
func elementIs(e *secp256k1.Element, want ref.Pt) (bool, string) {
	got, ok, why := abstract(e)
	if !ok {
		return false, "invalid representation: " + why
	}

	if !got.Eq(want) {
		return false, fmt.Sprintf("got %x want %x", ref.Enc(got), ref.Enc(want))
	}

	if enc := e.Encode(); !bytes.Equal(enc, ref.Enc(want)) {
		return false, fmt.Sprintf("Encode=%x want %x", enc, ref.Enc(want))
	}

	return true, ""
}

func ptStr(p ref.Pt) string { return hb(ref.EncUncompressed(p)) }

func ptFromStr(s string) ref.Pt {
	b := unhb(s)
	if len(b) == 1 {
		return ref.Infinity()
	}

	return ref.Pt{X: ref.OS2IP(b[1:33]), Y: ref.OS2IP(b[33:])}
}

func repCase(prefix string, r Rep, c Case) {
	c[prefix] = ptStr(r.P)
	c[prefix+"_lambda"] = hx(r.L)
}

func repFromCase(prefix string, c Case) Rep {
	return Rep{P: ptFromStr(c[prefix]), L: unhx(c[prefix+"_lambda"])}
}

// catchStr runs f and returns a description of the panic, or "".
func catchStr(f func()) string {
	if p := ev.Catch(f); p != nil {
		return fmt.Sprint(p)
	}

	return ""
}
