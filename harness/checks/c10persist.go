package checks

import (
	"fmt"
	"math/big"

	secp256k1 "github.com/bytemare/secp256k1"
	"github.com/bytemare/secp256k1/internal/verif/ev"
	"github.com/bytemare/secp256k1/internal/verif/ref"
)

// C10persist: histories executed on PERSISTENT objects. The breadth-first search of C10real rebuilds fresh
// variables from the raw state before every transition, which is exact as long as the library is a function of
// values. Anything the library remembers by object identity (a table cached per *Element, a scalar's expansion
// cached per *Scalar) is only exercised when the same objects live through several calls and are mutated in
// place in between. Here every history of depth <= 2 over the full operation alphabet, and every history of depth
// 3 over a sub-alphabet, is run from the initial pool on one set of long-lived objects, and every variable is
// compared with the abstract model after every step.

func c10PersistRun(path []int, ops []c10Op) (key, detail string) {
	return c10PersistRunFrom(path, ops, false)
}

// c10PersistRunFrom runs the history from the initial pool (identity, Base(), 0, n-0x1234567) or, with alt, from
// (5G in a re-scaled representation, Base(), 2, n-0x1234567): with a non-trivial second point already in the pool,
// three steps suffice for "decode another point into the element that Base() made, then use it".
func c10PersistRunFrom(path []int, ops []c10Op, alt bool) (key, detail string) {
	c10HashOnce.Do(c10Hash)

	st, m := c10Initial()

	if alt {
		p5 := ref.Secp.Mul(big.NewInt(5), ref.G())
		st.e[0], m.e[0] = rawOf(newElement(Rep{p5, big.NewInt(3)})), p5
		st.s[0], m.s[0] = ref.Mont(big.NewInt(2), ref.N), big.NewInt(2)
	}
	el := [c10E]*secp256k1.Element{fromRaw(st.e[0]), fromRaw(st.e[1])}
	sc := [c10S]*secp256k1.Scalar{scalarRaw(st.s[0]), scalarRaw(st.s[1])}

	if alt {
		// objects with a past: the second pool's generator and small scalar are MADE by the API (Base(), SetUInt64)
		// instead of being written as raw limbs, so whatever such a call attaches to the object besides its limbs
		// (a table, a memo, a flag) is there from the start - provided the call yields the very limbs of the pool state
		if b := secp256k1.NewElement().Base(); rawOf(b) == st.e[1] {
			el[1] = b
		}

		if two := secp256k1.NewScalar().SetUInt64(2); [4]uint64(two.S) == st.s[0] {
			sc[0] = two
		}
	}

	for step, oi := range path {
		o := ops[oi]
		nm, err := c10Step(&el, &sc, m, o)

		desc := func() string {
			return fmt.Sprintf("history %v step %d (%v) on persistent objects, model before: %s", path, step, o, c10ModelString(m))
		}

		if err != "" {
			return o.name + "/persistent-objects/" + "error", desc() + ": " + err
		}

		m = nm

		for i := range el {
			if ok, why := elementIs(el[i], m.e[i]); !ok {
				return o.name + "/persistent-objects/element-differs-from-model", fmt.Sprintf("%s: e%d: %s", desc(), i, why)
			}
		}

		for i := range sc {
			if ok, why := scalarIs(sc[i], m.s[i]); !ok {
				return o.name + "/persistent-objects/scalar-differs-from-model", fmt.Sprintf("%s: s%d: %s", desc(), i, why)
			}

			if !bitsAgree(sc[i], m.s[i]) {
				return o.name + "/persistent-objects/Bits-differs-from-Encode", fmt.Sprintf("%s: s%d", desc(), i)
			}

			if sc[i].IsZero() != (m.s[i].Sign() == 0) || sc[i].IsOne() != (m.s[i].Cmp(big.NewInt(1)) == 0) {
				return o.name + "/persistent-objects/IsZero-or-IsOne-differs-from-model", fmt.Sprintf("%s: s%d", desc(), i)
			}
		}

		// pairwise observables
		eq := m.e[0].Eq(m.e[1])
		if (el[0].Equal(el[1]) == 1) != eq || (el[1].Equal(el[0]) == 1) != eq {
			return o.name + "/persistent-objects/Equal-differs-from-model", desc()
		}

		for i := range el {
			if el[i].IsIdentity() != m.e[i].Inf {
				return o.name + "/persistent-objects/IsIdentity-differs-from-model", fmt.Sprintf("%s: e%d", desc(), i)
			}
		}

		cmp := m.s[0].Cmp(m.s[1])
		if (sc[0].Equal(sc[1]) == 1) != (cmp == 0) || (sc[0].LessOrEqual(sc[1]) == 1) != (cmp <= 0) || (sc[1].LessOrEqual(sc[0]) == 1) != (cmp >= 0) {
			return o.name + "/persistent-objects/scalar-comparison-differs-from-model", desc()
		}
	}

	return "", ""
}

// C14persist: Bits must be the expansion of the scalar's current value after ANY history: every history of depth
// <= 3 over the scalar operations (incl. rejected decodes, which may change the receiver) on persistent scalars,
// with Bits() compared with the value after every step.
func C14persist(r *ev.Report) {
	all := c10Ops()

	var ops []int

	for i, o := range all {
		if !o.elem {
			ops = append(ops, i)
		}
	}

	var paths [][]int

	for _, a := range ops {
		for _, b := range ops {
			paths = append(paths, []int{a, b})

			for _, c := range ops {
				if all[c].name == "Decode(invalid)" || all[b].name == "Decode(invalid)" || all[a].name == "Decode(invalid)" {
					paths = append(paths, []int{a, b, c})
				}
			}
		}
	}

	r.Rule("histories on persistent scalar objects: every sequence of 2 scalar operations (every receiver/argument choice, incl. decodes that are rejected and may clobber the receiver), and every sequence of 3 that contains a rejected decode; after every step Bits() of every scalar must be the binary expansion of the value Encode() reports; non-trivial = all")
	r.Bound("scalar_operation_instances", len(ops))
	r.Bound("histories", len(paths))
	r.States.Add(int64(len(paths)))

	r.ParFor(len(paths), func(_, i int) {
		r.Transitions.Add(int64(len(paths[i])))
		r.Evals.Add(1)
		r.Distinct.Add(1)

		if key, detail := c10PersistRun(paths[i], all); key != "" {
			r.Violation(key, detail, Case{"op": "persist", "path": fmt.Sprint(paths[i])})
		}
	})

	r.Sample(Case{"op": "persist", "path": fmt.Sprint(paths[len(paths)/2])})
}

// c10Step performs one operation in place on the given objects and returns the successor model.
func c10Step(el *[c10E]*secp256k1.Element, sc *[c10S]*secp256k1.Scalar, m c10Model, o c10Op) (nm c10Model, errStr string) {
	nm = m

	var err error

	pan := catchStr(func() {
		if o.elem {
			r, a := el[o.i], el[o.j]

			switch o.name {
			case "Double":
				r.Double()
				nm.e[o.i] = ref.Secp.Double(m.e[o.i])
			case "Negate":
				r.Negate()
				nm.e[o.i] = ref.Secp.Neg(m.e[o.i])
			case "Identity":
				r.Identity()
				nm.e[o.i] = ref.Infinity()
			case "Base":
				r.Base()
				nm.e[o.i] = ref.G()
			case "zero;Identity":
				*r = secp256k1.Element{}
				r.Identity()
				nm.e[o.i] = ref.Infinity()
			case "zero;Base":
				*r = secp256k1.Element{}
				r.Base()
				nm.e[o.i] = ref.G()
			case "zero;Multiply(nil)":
				*r = secp256k1.Element{}
				r.Multiply(nil)
				nm.e[o.i] = ref.Infinity()
			case "zero;Decode(00)":
				*r = secp256k1.Element{}
				err = r.Decode([]byte{0})
				nm.e[o.i] = ref.Infinity()
			case "zero;Set":
				*r = secp256k1.Element{}
				r.Set(a)
				nm.e[o.i] = m.e[o.j]
			case "zero;Decode(Encode)":
				*r = secp256k1.Element{}
				err = r.Decode(a.Encode())
				nm.e[o.i] = m.e[o.j]
			case "Add(nil)":
				r.Add(nil)
			case "Subtract(nil)":
				r.Subtract(nil)
			case "Multiply(nil)":
				r.Multiply(nil)
				nm.e[o.i] = ref.Infinity()
			case "=HashToGroup":
				el[o.i] = secp256k1.HashToGroup(c10Msg, c10DST)
				nm.e[o.i] = c10H2G
			case "=EncodeToGroup":
				el[o.i] = secp256k1.EncodeToGroup(c10Msg, c10DST)
				nm.e[o.i] = c10E2G
			case "=HashToGroup(longDST)":
				el[o.i] = secp256k1.HashToGroup(c10Msg, c10LongDST)
				nm.e[o.i] = c10H2GLong
			case "=NewElement":
				el[o.i] = secp256k1.NewElement()
				nm.e[o.i] = ref.Infinity()
			case "Set":
				r.Set(a)
				nm.e[o.i] = m.e[o.j]
			case "Add":
				r.Add(a)
				nm.e[o.i] = ref.Secp.Add(m.e[o.i], m.e[o.j])
			case "Subtract":
				r.Subtract(a)
				nm.e[o.i] = ref.Secp.Sub(m.e[o.i], m.e[o.j])
			case "=Copy":
				el[o.i] = a.Copy()
				nm.e[o.i] = m.e[o.j]
			case "Decode(Encode)":
				err = r.Decode(a.Encode())
				nm.e[o.i] = m.e[o.j]
			case "Decode(EncodeUncompressed)":
				err = r.Decode(a.EncodeUncompressed())
				nm.e[o.i] = m.e[o.j]
			case "DecodeHex(Hex)":
				err = r.DecodeHex(a.Hex())
				nm.e[o.i] = m.e[o.j]
			case "UnmarshalBinary(MarshalBinary)":
				b, _ := a.MarshalBinary()
				err = r.UnmarshalBinary(b)
				nm.e[o.i] = m.e[o.j]
			case "DecodeCompressed(Encode)":
				// the dedicated decoders do not take the identity's one-byte form: the model then keeps the receiver
				if m.e[o.j].Inf {
					if derr := r.DecodeCompressed(a.Encode()); derr == nil {
						err = fmt.Errorf("DecodeCompressed accepted the identity encoding")
					}
				} else {
					err = r.DecodeCompressed(a.Encode())
					nm.e[o.i] = m.e[o.j]
				}
			case "DecodeUncompressed(EncodeUncompressed)":
				if m.e[o.j].Inf {
					if derr := r.DecodeUncompressed(a.EncodeUncompressed()); derr == nil {
						err = fmt.Errorf("DecodeUncompressed accepted the identity encoding")
					}
				} else {
					err = r.DecodeUncompressed(a.EncodeUncompressed())
					nm.e[o.i] = m.e[o.j]
				}
			case "DecodeCoordinates(affine)":
				if !m.e[o.j].Inf {
					err = r.DecodeCoordinates(ref.Arr32(m.e[o.j].X), ref.Arr32(m.e[o.j].Y))
					nm.e[o.i] = m.e[o.j]
				}
			case "Multiply":
				r.Multiply(sc[o.k])
				nm.e[o.i] = c10Mul(m.s[o.k], m.e[o.i])
			case "Decode(invalid)":
				if derr := r.Decode(c10BadElem()[o.k]); derr == nil {
					err = fmt.Errorf("invalid encoding accepted")
				}
			default:
				panic("unknown element op " + o.name)
			}

			return
		}

		r, a := sc[o.i], sc[o.j]

		switch o.name {
		case "Zero":
			r.Zero()
			nm.s[o.i] = big.NewInt(0)
		case "One":
			r.One()
			nm.s[o.i] = big.NewInt(1)
		case "MinusOne":
			r.MinusOne()
			nm.s[o.i] = new(big.Int).Sub(ref.N, big.NewInt(1))
		case "Random":
			// crypto/rand.Reader is a constant stream in the harness processes (package conc), so the result is known
			r.Random()
			nm.s[o.i] = c10RandomValue
		case "SetUInt64(3)":
			r.SetUInt64(3)
			nm.s[o.i] = big.NewInt(3)
		case "SetSparse":
			err = r.Decode(ref.Bytes32(c10Sparse))
			nm.s[o.i] = c10Sparse
		case "Square":
			r.Square()
			nm.s[o.i] = ref.Zn.Sqr(m.s[o.i])
		case "Invert":
			r.Invert()
			nm.s[o.i] = ref.Zn.Inv0(m.s[o.i])
		case "Add(nil)":
			r.Add(nil)
		case "Subtract(nil)":
			r.Subtract(nil)
		case "Multiply(nil)":
			r.Multiply(nil)
			nm.s[o.i] = big.NewInt(0)
		case "Set(nil)":
			r.Set(nil)
			nm.s[o.i] = big.NewInt(0)
		case "=HashToScalar":
			sc[o.i] = secp256k1.HashToScalar(c10Msg, c10DST)
			nm.s[o.i] = c10H2S
		case "=HashToScalar(longDST)":
			sc[o.i] = secp256k1.HashToScalar(c10Msg, c10LongDST)
			nm.s[o.i] = c10H2SLong
		case "Set":
			r.Set(a)
			nm.s[o.i] = m.s[o.j]
		case "Add":
			r.Add(a)
			nm.s[o.i] = ref.Zn.Add(m.s[o.i], m.s[o.j])
		case "Subtract":
			r.Subtract(a)
			nm.s[o.i] = ref.Zn.Sub(m.s[o.i], m.s[o.j])
		case "Multiply":
			r.Multiply(a)
			nm.s[o.i] = ref.Zn.Mul(m.s[o.i], m.s[o.j])
		case "Pow":
			r.Pow(a)
			nm.s[o.i] = ref.Zn.Exp(m.s[o.i], m.s[o.j])
		case "=Copy":
			sc[o.i] = a.Copy()
			nm.s[o.i] = m.s[o.j]
		case "Decode(Encode)":
			err = r.Decode(a.Encode())
			nm.s[o.i] = m.s[o.j]
		case "DecodeHex(Hex)":
			err = r.DecodeHex(a.Hex())
			nm.s[o.i] = m.s[o.j]
		case "UnmarshalBinary(MarshalBinary)":
			b, _ := a.MarshalBinary()
			err = r.UnmarshalBinary(b)
			nm.s[o.i] = m.s[o.j]
		case "CSelect(0,self,arg)":
			err = r.CSelect(0, r, a)
		case "CSelect(1,self,arg)":
			err = r.CSelect(1, r, a)
			nm.s[o.i] = m.s[o.j]
		case "CSelect(nil)":
			if cerr := r.CSelect(1, r, nil); cerr == nil {
				err = fmt.Errorf("CSelect with a nil operand reported no error")
			}
		case "Decode(invalid)":
			if derr := r.Decode(c10BadScalar()[o.k]); derr == nil {
				err = fmt.Errorf("invalid scalar encoding accepted")
			}

			nm.s[o.i] = ref.Unmont(r.S, ref.N)
		default:
			panic("unknown scalar op " + o.name)
		}
	})

	if pan != "" {
		return nm, "panic: " + pan
	}

	if err != nil {
		return nm, err.Error()
	}

	return nm, ""
}

// C10persist runs the short histories on persistent objects.
func C10persist(r *ev.Report) {
	ops := c10Ops()

	// sub-alphabet for depth 3: operations through which identity-keyed state could matter
	var sub []int

	for i, o := range ops {
		switch o.name {
		case "Multiply", "Double", "Add", "Subtract", "Set", "Base", "Negate", "Decode(Encode)", "Pow", "Invert", "MinusOne", "=HashToGroup":
			sub = append(sub, i)
		}
	}

	var paths [][]int

	for a := range ops {
		paths = append(paths, []int{a})

		for b := range ops {
			paths = append(paths, []int{a, b})
		}
	}

	if ev.Thorough() {
		// thorough: depth 3 over the FULL alphabet
		sub = sub[:0]
		for i := range ops {
			sub = append(sub, i)
		}
	}

	for _, a := range sub {
		for _, b := range sub {
			for _, c := range sub {
				paths = append(paths, []int{a, b, c})
			}
		}
	}

	r.Rule("real curve, histories on persistent objects: every history of depth 1 and 2 over the full operation alphabet of C10real and every history of depth 3 over a sub-alphabet (thorough tier: over the full alphabet; quick: Multiply, Double, Add, Subtract, Set, Base, Negate, Decode(Encode), Pow, Invert, MinusOne, HashToGroup - every receiver/argument choice) is executed from the initial pool (depth <= 2: also from a second pool holding a re-scaled 5G and the element Base() made) on one set of long-lived objects that are mutated in place, and EVERY variable is compared with the abstract model after every step; exposes state remembered by object identity, which the rebuild-from-raw-state BFS cannot see; non-trivial = histories of depth >= 2")
	r.Bound("operation_instances", len(ops))
	r.Bound("sub_alphabet", len(sub))
	r.Bound("histories", len(paths))
	r.States.Add(int64(len(paths)))

	r.ParFor(len(paths), func(_, i int) {
		p := paths[i]
		r.Transitions.Add(int64(len(p)))
		r.Evals.Add(1)

		if len(p) >= 2 {
			r.Distinct.Add(1)
		}

		if key, detail := c10PersistRun(p, ops); key != "" {
			r.Violation(key, detail, Case{"op": "persist", "path": fmt.Sprint(p)})
		}

		// the same history from a non-initial pool (a re-scaled 5G next to the element that Base() made): state that
		// one variable acquired from an earlier call is already there, so two steps reach what takes three or four
		// from the initial pool
		if len(p) <= 2 {
			r.Transitions.Add(int64(len(p)))
			r.Evals.Add(1)

			if key, detail := c10PersistRunFrom(p, ops, true); key != "" {
				r.Violation(key, detail, Case{"op": "persist", "path": fmt.Sprint(p), "alt": "true"})
			}
		}
	})

	r.Sample(Case{"op": "persist", "path": fmt.Sprint(paths[len(paths)-7]), "meaning": "indices into the operation alphabet of C10real"})
}

// persistSub runs every history of depth <= 3 over the operation instances selected by keep, on persistent
// objects; used to give C04 and C07 their own view of "encodings after any history".
func persistSub(rule string, keep func(o c10Op) bool, depth3 func(o c10Op) bool) func(r *ev.Report) {
	return func(r *ev.Report) {
		all := c10Ops()

		var ops, deep []int

		for i, o := range all {
			if keep(o) {
				ops = append(ops, i)

				if depth3(o) {
					deep = append(deep, i)
				}
			}
		}

		var paths [][]int

		for _, a := range ops {
			for _, b := range ops {
				paths = append(paths, []int{a, b})
			}
		}

		for _, a := range deep {
			for _, b := range deep {
				for _, c := range deep {
					paths = append(paths, []int{a, b, c})
				}
			}
		}

		r.Rule(rule)
		r.Bound("operation_instances", len(ops))
		r.Bound("depth3_sub_alphabet", len(deep))
		r.Bound("histories", len(paths))
		r.States.Add(int64(len(paths)))

		r.ParFor(len(paths), func(_, i int) {
			r.Transitions.Add(int64(len(paths[i])))
			r.Evals.Add(1)
			r.Distinct.Add(1)

			if key, detail := c10PersistRun(paths[i], all); key != "" {
				r.Violation(key, detail, Case{"op": "persist", "path": fmt.Sprint(paths[i])})
			}

			// the same history from the second initial pool
			r.Transitions.Add(int64(len(paths[i])))
			r.Evals.Add(1)

			if key, detail := c10PersistRunFrom(paths[i], all, true); key != "" {
				r.Violation(key, detail, Case{"op": "persist", "path": fmt.Sprint(paths[i]), "alt": "true"})
			}
		})

		r.Bound("initial_pools", 2)
		r.Sample(Case{"op": "persist", "path": fmt.Sprint(paths[len(paths)/2])})
	}
}

func init() {
	Parts["C04persist"] = Part{"C04", persistSub(
		"histories on persistent element objects: every sequence of 2 element operations (every receiver/argument choice: arithmetic, Set, Copy, Base, Identity, all decode paths incl. rejected ones, hashing results) and every sequence of 3 over the codec-related ones; after every step the compressed encoding of every element must be the SEC1 encoding of the group element its stored coordinates represent (an encoder answering from a memo that some path forgot to invalidate is stale here); non-trivial = all",
		func(o c10Op) bool { return o.elem },
		func(o c10Op) bool {
			switch o.name {
			case "Decode(Encode)", "Decode(EncodeUncompressed)", "DecodeHex(Hex)", "UnmarshalBinary(MarshalBinary)", "Decode(invalid)", "Base", "Double", "Identity":
				return true
			}

			return false
		})}
	Parts["C07persist"] = Part{"C07", persistSub(
		"histories on persistent scalar objects: every sequence of 2 scalar operations (every receiver/argument choice, incl. rejected decodes) and every sequence of 3 over the codec-related ones; after every step Encode of every scalar must be the 32-byte big-endian form of the value its stored limbs represent, and Bits its expansion; non-trivial = all",
		func(o c10Op) bool { return !o.elem },
		func(o c10Op) bool {
			switch o.name {
			case "Decode(Encode)", "DecodeHex(Hex)", "Decode(invalid)", "MinusOne", "Add", "Set":
				return true
			}

			return false
		})}
	elemRule := "histories on persistent element objects: every sequence of 2 element operations (every receiver/argument choice incl. the same variable: arithmetic, Multiply by each scalar variable, Set, Copy, Base, Identity, every decode path incl. rejected ones, hashing results) and every sequence of 3 over a sub-alphabet; after every step every element's stored coordinates, its compressed encoding, Equal (both orders) and IsIdentity must agree with the abstract model; non-trivial = all"
	scalRule := "histories on persistent scalar objects: every sequence of 2 scalar operations (every receiver/argument choice incl. the same variable, nil forms, rejected decodes) and every sequence of 3 over a sub-alphabet; after every step every scalar's stored limbs, Encode, Bits, IsZero, IsOne, Equal and LessOrEqual (both orders) must agree with the abstract model; non-trivial = all"
	isElem := func(o c10Op) bool { return o.elem }
	isScal := func(o c10Op) bool { return !o.elem }
	arith := func(names ...string) func(o c10Op) bool {
		return func(o c10Op) bool {
			for _, n := range names {
				if o.name == n {
					return true
				}
			}

			return false
		}
	}

	Parts["C01persist"] = Part{"C01", persistSub(elemRule, isElem, arith("Multiply", "Double", "Decode(Encode)", "Base", "Negate", "DecodeCompressed(Encode)", "DecodeUncompressed(EncodeUncompressed)", "DecodeCoordinates(affine)", "Set"))}
	Parts["C02persist"] = Part{"C02", persistSub(elemRule, isElem, arith("Add", "Subtract", "Double", "Negate", "Identity", "zero;Identity"))}
	Parts["C05persist"] = Part{"C05", persistSub(elemRule, isElem, arith("Set", "Negate", "Identity", "Double", "Decode(EncodeUncompressed)", "zero;Identity", "zero;Decode(00)", "zero;Multiply(nil)"))}
	Parts["C06persist"] = Part{"C06", persistSub(scalRule, isScal, arith("Add", "Subtract", "Multiply", "Square", "Invert", "Pow"))}
	Parts["C13persist"] = Part{"C13", persistSub(scalRule, isScal, arith("CSelect(0,self,arg)", "CSelect(1,self,arg)", "Set", "MinusOne", "Decode(invalid)", "Subtract"))}
	Parts["C10persist"] = Part{"C10", C10persist}
	Parts["C14persist"] = Part{"C14", C14persist}
}
