package checks

import (
	"bytes"
	"crypto/rand"
	"crypto/sha256"
	"encoding/binary"
	"encoding/hex"
	"errors"
	"fmt"
	"math/big"
	"os"
	"strings"

	secp256k1 "github.com/bytemare/secp256k1"
	"github.com/bytemare/secp256k1/internal/field"
	"github.com/bytemare/secp256k1/internal/verif/ev"
	"github.com/bytemare/secp256k1/internal/verif/ref"
)

// Fault histories (added in round 31). Every API function is a function of its arguments (and, for Random, of the
// entropy stream position): what one call returns must not depend on which calls the same goroutine made before -
// in particular not on calls that FAILED (a rejected encoding, malformed hex, a zero-length DST panic that the
// caller recovered from, a nil receiver, an entropy failure) or that took an unusual path (oversize DST). State that
// a failure path leaves behind (a pooled scratch object returned dirty, a memo whose value was clobbered while its
// key was kept, a slice of the caller's memory parked in a cache) only shows in the call AFTER the failing one.
//
// The alphabet is a catalogue of concrete calls, each with the observation the model prescribes (value, "err" or
// "panic"). The explorer runs, on ONE goroutine per process, every sequence [A, C], [A, A, C]-free of repetition
// pruning - i.e. all pairs - and every triple [A, F, C] in which F is a failing/unusual call and A, C belong to the
// same family; after every step the observation of that step is compared with the model, every byte buffer that
// any earlier step handed to the library is compared with its snapshot over its whole backing array, and every
// returned byte slice is overwritten by the "caller" over its full capacity.

type fhEnv struct {
	rd           *fhReader
	keepReturned bool
	tracked      []fhBuf
	// persistent receivers that live through the whole sequence (created on first use): what a REJECTED decode does
	// to its receiver is not specified, but whatever the receiver's limbs say afterwards, every later operation on
	// the same object must agree with them
	ps *secp256k1.Scalar
	pe *secp256k1.Element
}

func (e *fhEnv) scalar() *secp256k1.Scalar {
	if e.ps == nil {
		e.ps = newScalar(big.NewInt(0x1234567))
	}

	return e.ps
}

func (e *fhEnv) element() *secp256k1.Element {
	if e.pe == nil {
		e.pe = newElement(Rep{nG(big.NewInt(9)), big.NewInt(5)})
	}

	return e.pe
}

// psValue / peValue: the model's view of the persistent objects, read from their stored limbs.
func (e *fhEnv) psValue() *big.Int { return ref.Unmont([4]uint64(e.scalar().S), ref.N) }

func (e *fhEnv) peValue() (ref.Pt, bool) {
	p, ok, _ := abstract(e.element())
	return p, ok
}

type fhBuf struct {
	owner string
	full  []byte
	snap  []byte
}

// slice hands out content as a window of a larger caller-owned array (4 bytes before, 40 after, capacity open).
func (e *fhEnv) slice(owner string, content []byte) []byte {
	full := bytes.Repeat([]byte{0xa5}, 4+len(content)+40)
	copy(full[4:], content)
	e.tracked = append(e.tracked, fhBuf{"buffer handed to " + owner + " (the window starts at byte 4)", full, append([]byte{}, full...)})

	return full[4 : 4+len(content)]
}

func (e *fhEnv) modified() string {
	for _, b := range e.tracked {
		if !bytes.Equal(b.full, b.snap) {
			for i := range b.full {
				if b.full[i] != b.snap[i] {
					return fmt.Sprintf("%s: byte %d changed from %02x to %02x", b.owner, i, b.snap[i], b.full[i])
				}
			}
		}
	}

	return ""
}

// scribble is what the caller does with a slice the library returned. In the value parts it is the hostile caller: it
// overwrites the slice over its full capacity (no later result may change). In the buffer part (C15) the caller KEEPS
// the slice instead: it is registered like a buffer the caller handed in, and must hold its bytes for the rest of the
// history - two results that share a backing array, or a result the library writes into again, show as a change.
func scribble(b []byte) {
	if e := fhCurrent; e != nil && e.keepReturned {
		if cap(b) > 0 {
			full := b[:cap(b)]
			e.tracked = append(e.tracked, fhBuf{"a slice the library returned earlier in the history", full, append([]byte{}, full...)})
		}

		return
	}

	b = b[:cap(b)]
	for i := range b {
		b[i] ^= 0x5c
	}
}

// fhCurrent is the environment of the sequence being run (one goroutine per process).
var fhCurrent *fhEnv

// fhReader is the entropy source of the fault histories: a fixed stream of distinct blocks (block i = SHA-256 of i),
// with an optional failure after failIn more bytes.
type fhReader struct {
	pos    int
	failIn int
}

var fhBlocks = map[int][32]byte{}

func fhStream(pos, n int) []byte {
	out := make([]byte, n)

	for i := range out {
		j := (pos + i) / 32

		blk, ok := fhBlocks[j]
		if !ok {
			var c [8]byte
			binary.BigEndian.PutUint64(c[:], uint64(j))
			blk = sha256.Sum256(append([]byte("verif fault-history entropy block "), c[:]...))
			fhBlocks[j] = blk
		}

		out[i] = blk[(pos+i)%32]
	}

	return out
}

func (r *fhReader) Read(p []byte) (int, error) {
	if r.failIn == 0 {
		return 0, errors.New("verif: entropy source failure")
	}

	n := len(p)
	if r.failIn > 0 && n > r.failIn {
		n = r.failIn
	}

	copy(p, fhStream(r.pos, n))
	r.pos += n

	if r.failIn > 0 {
		r.failIn -= n
	}

	return n, nil
}

type fhOp struct {
	name  string
	fam   string
	fault bool // fails, or takes an unusual path
	heavy bool // expensive (group multiplication, hashing to the group): thinner products
	calib bool // behaviour not specified by any property (nil receivers, nil operands of CSelect): only the CLASS of the
	// observation (panic / err / ok) is compared, and with what this very tree does when the call is the first one
	run  func(e *fhEnv) string
	want func(e *fhEnv) string // evaluated BEFORE run (may read the entropy position)
}

const (
	fhErr   = "err"
	fhPanic = "panic"
)

func fhElemObs(el *secp256k1.Element, err error) string {
	if err != nil {
		return fhErr
	}

	c, u := el.Encode(), el.EncodeUncompressed()
	s := fmt.Sprintf("ok:%x/%x", c, u)
	scribble(c)
	scribble(u)

	return s
}

func fhPtObs(p ref.Pt) string {
	return fmt.Sprintf("ok:%x/%x", ref.Enc(p), fhEncUncompressed(p))
}

func fhEncUncompressed(p ref.Pt) []byte {
	if p.Inf {
		return []byte{0}
	}

	return ref.EncUncompressed(p)
}

func fhScalarObs(s *secp256k1.Scalar, err error) string {
	if err != nil {
		return fhErr
	}

	b := s.Encode()
	o := fmt.Sprintf("ok:%x", b)
	scribble(b)

	return o
}

func fhGuard(f func() string) string {
	var out string
	if p := ev.Catch(func() { out = f() }); p != nil {
		return fhPanic
	}

	return out
}

func constant(s string) func(*fhEnv) string { return func(*fhEnv) string { return s } }

var fhOpsMemo []fhOp

// fhOps builds the catalogue.
func fhOps() []fhOp {
	if fhOpsMemo != nil {
		return fhOpsMemo
	}

	var ops []fhOp

	add := func(o fhOp) {
		o.calib = strings.Contains(o.name, "(nil)") && (strings.HasPrefix(o.name, "(*") || strings.HasPrefix(o.name, "CSelect"))
		inner := o.run
		o.run = func(e *fhEnv) string { return fhGuard(func() string { return inner(e) }) }
		ops = append(ops, o)
	}

	g := ref.G()
	g5 := nG(big.NewInt(5))
	h := HPoint()
	one := big.NewInt(1)

	bitsWant := func(v *big.Int) string {
		var sb strings.Builder
		for i := 0; i < 256; i++ {
			sb.WriteByte('0' + byte(v.Bit(i)))
		}

		return sb.String()
	}

	// ---- element decoders ------------------------------------------------------------------------------
	type namedBytes struct {
		n string
		b []byte
	}

	valid := []namedBytes{
		{"enc(G)", ref.Enc(g)}, {"unc(G)", ref.EncUncompressed(g)}, {"enc(5G)", ref.Enc(g5)}, {"enc(-H)", ref.Enc(ref.Secp.Neg(h))},
		{"unc(H)", ref.EncUncompressed(h)}, {"identity", []byte{0}},
	}

	var invalid []namedBytes
	for i, b := range c10BadElem() {
		if i < 9 {
			invalid = append(invalid, namedBytes{fmt.Sprintf("bad#%d[%d bytes]", i, len(b)), b})
		}
	}

	// a second x that is not on the curve, the wrong root for G, truncations and extensions of valid encodings
	off2 := int64(100)
	for ; ref.Fp.IsSquare(ref.Secp.RHS(big.NewInt(off2))); off2++ {
	}

	wrongY := ref.EncUncompressed(g)
	copy(wrongY[33:], ref.Bytes32(ref.Secp.Neg(g5).Y))

	invalid = append(invalid,
		namedBytes{"off-curve-x#2", append([]byte{3}, ref.Bytes32(big.NewInt(off2))...)},
		namedBytes{"unc(G)-with-foreign-y", wrongY},
		namedBytes{"enc(G)+1byte", append(ref.Enc(g), 0)},
		namedBytes{"unc(G)-1byte", ref.EncUncompressed(g)[:64]},
		namedBytes{"empty", []byte{}},
		namedBytes{"identity+1byte", []byte{0, 0}},
	)

	for _, d := range elemDecoders {
		d := d

		for _, in := range append(append([]namedBytes{}, valid...), invalid...) {
			in := in
			pt, ok := ref.Dec(in.b, d.forms)
			want := fhErr

			if ok {
				want = fhPtObs(pt)
			}

			add(fhOp{
				name: "Element." + d.name + "(" + in.n + ")", fam: "edec", fault: !ok, want: constant(want),
				run: func(e *fhEnv) string {
					el := secp256k1.NewElement()
					err := d.f(el, e.slice("Element."+d.name, in.b))

					return fhElemObs(el, err)
				},
			})
		}
	}

	// DecodeCoordinates
	for _, in := range []struct {
		n    string
		x, y *big.Int
	}{
		{"G", g.X, g.Y}, {"H", h.X, h.Y}, {"G.x,5G.y", g.X, g5.Y}, {"p,G.y", ref.P, g.Y}, {"G.x,p", g.X, ref.P}, {"0,0", big.NewInt(0), big.NewInt(0)},
	} {
		in := in
		pt, ok := ref.DecCoordinates(ref.Bytes32(in.x), ref.Bytes32(in.y))
		want := fhErr

		if ok {
			want = fhPtObs(pt)
		}

		add(fhOp{
			name: "Element.DecodeCoordinates(" + in.n + ")", fam: "edec", fault: !ok, want: constant(want),
			run: func(e *fhEnv) string {
				el := secp256k1.NewElement()
				return fhElemObs(el, el.DecodeCoordinates(ref.Arr32(in.x), ref.Arr32(in.y)))
			},
		})
	}

	// textual forms of elements
	hexG := hex.EncodeToString(ref.Enc(g))
	for _, in := range []struct {
		n, s string
		pt   ref.Pt
		ok   bool
	}{
		{"hex(G)", hexG, g, true}, {"HEX(G)", strings.ToUpper(hexG), g, true}, {"hex(G) minus last digit", hexG[:65], g, false},
		{"hex(G) bad last digit", hexG[:65] + "g", g, false}, {"hex(G) bad first digit", "x" + hexG[1:], g, false},
		{"hex(G) bad middle digit", hexG[:30] + "-" + hexG[31:], g, false}, {"empty string", "", g, false},
		{"hex(unc(H))", hex.EncodeToString(ref.EncUncompressed(h)), h, true}, {"hex(identity)", "00", ref.Infinity(), true},
		{"hex(enc(G)) + 2 digits", hexG + "00", g, false}, {"0x-prefixed", "0x" + hexG, g, false},
	} {
		in := in
		want := fhErr

		if in.ok {
			want = fhPtObs(in.pt)
		}

		add(fhOp{
			name: "Element.DecodeHex(" + in.n + ")", fam: "edec", fault: !in.ok, want: constant(want),
			run: func(e *fhEnv) string {
				el := secp256k1.NewElement()
				return fhElemObs(el, el.DecodeHex(in.s))
			},
		})
	}

	// ---- element encoders ------------------------------------------------------------------------------
	for _, np := range []struct {
		n string
		p ref.Pt
	}{{"G", g}, {"5G", g5}, {"H", h}, {"identity", ref.Infinity()}} {
		np := np

		for _, lam := range []*big.Int{one, big.NewInt(2)} {
			lam := lam
			add(fhOp{
				name: fmt.Sprintf("encoders(%s scaled by %v)", np.n, lam), fam: "eenc",
				want: constant(fmt.Sprintf("%x/%x/%x/%s", ref.Enc(np.p), fhEncUncompressed(np.p), ref.Enc(np.p), hex.EncodeToString(ref.Enc(np.p)))),
				run: func(e *fhEnv) string {
					el := newElement(Rep{np.p, lam})
					c, u := el.Encode(), el.EncodeUncompressed()
					m, err := el.MarshalBinary()
					if err != nil {
						return fhErr
					}

					s := fmt.Sprintf("%x/%x/%x/%s", c, u, m, el.Hex())
					scribble(c)
					scribble(u)
					scribble(m)

					return s
				},
			})
		}
	}

	add(fhOp{
		name: "Base().XCoordinate()", fam: "eenc", want: constant(fmt.Sprintf("%x", ref.Bytes32(g.X))),
		run: func(e *fhEnv) string {
			x := secp256k1.Base().XCoordinate()
			s := fmt.Sprintf("%x", x)
			scribble(x)

			return s
		},
	})

	// ---- element arithmetic -------------------------------------------------------------------------------
	add(fhOp{name: "5G + H", fam: "earith", want: constant(fhPtObs(ref.Secp.Add(g5, h))), run: func(e *fhEnv) string {
		return fhElemObs(newElement(Rep{g5, big.NewInt(3)}).Add(newElement(Rep{h, one})), nil)
	}})
	add(fhOp{name: "G - G", fam: "earith", want: constant(fhPtObs(ref.Infinity())), run: func(e *fhEnv) string {
		return fhElemObs(secp256k1.Base().Subtract(secp256k1.Base()), nil)
	}})
	add(fhOp{name: "Double(H)", fam: "earith", want: constant(fhPtObs(ref.Secp.Double(h))), run: func(e *fhEnv) string {
		return fhElemObs(newElement(Rep{h, one}).Double(), nil)
	}})
	add(fhOp{name: "Negate(5G)", fam: "earith", want: constant(fhPtObs(ref.Secp.Neg(g5))), run: func(e *fhEnv) string {
		return fhElemObs(newElement(Rep{g5, one}).Negate(), nil)
	}})
	add(fhOp{name: "G.Add(nil)", fam: "earith", want: constant(fhPtObs(g)), run: func(e *fhEnv) string {
		return fhElemObs(secp256k1.Base().Add(nil), nil)
	}})
	add(fhOp{name: "Equal(G, 2*G-rep)/Equal(G,5G)/IsIdentity", fam: "eq", want: constant("1 0 false true"), run: func(e *fhEnv) string {
		a, b, c := secp256k1.Base(), newElement(Rep{g, big.NewInt(2)}), newElement(Rep{g5, one})
		return fmt.Sprintf("%d %d %v %v", a.Equal(b), a.Equal(c), a.IsIdentity(), secp256k1.NewElement().IsIdentity())
	}})

	kBig := new(big.Int).Sub(ref.N, big.NewInt(0x1234567))
	for _, k := range []*big.Int{big.NewInt(0), big.NewInt(7), kBig} {
		k := k
		add(fhOp{name: fmt.Sprintf("[%x]H", k), fam: "emul", heavy: true, want: constant(fhPtObs(ref.Secp.Mul(k, h))), run: func(e *fhEnv) string {
			return fhElemObs(newElement(Rep{h, one}).Multiply(newScalar(k)), nil)
		}})
	}

	add(fhOp{name: "[7]Base()", fam: "emul", heavy: true, want: constant(fhPtObs(nG(big.NewInt(7)))), run: func(e *fhEnv) string {
		return fhElemObs(secp256k1.Base().Multiply(newScalar(big.NewInt(7))), nil)
	}})
	add(fhOp{name: "G.Multiply(nil)", fam: "emul", want: constant(fhPtObs(ref.Infinity())), run: func(e *fhEnv) string {
		return fhElemObs(secp256k1.Base().Multiply(nil), nil)
	}})

	// nil receivers: caller errors that panic; the caller recovers
	add(fhOp{name: "(*Element)(nil).Decode(enc(G))", fam: "edec", fault: true, want: constant(fhPanic), run: func(e *fhEnv) string {
		var el *secp256k1.Element
		return fhElemObs(el, el.Decode(e.slice("nil.Decode", ref.Enc(g))))
	}})
	add(fhOp{name: "(*Element)(nil).Multiply(7)", fam: "emul", fault: true, want: constant(fhPanic), run: func(e *fhEnv) string {
		var el *secp256k1.Element
		return fhElemObs(el.Multiply(newScalar(big.NewInt(7))), nil)
	}})
	add(fhOp{name: "(*Element)(nil).Add(G)", fam: "earith", fault: true, want: constant(fhPanic), run: func(e *fhEnv) string {
		var el *secp256k1.Element
		return fhElemObs(el.Add(secp256k1.Base()), nil)
	}})
	add(fhOp{name: "(*Element)(nil).Encode()", fam: "eenc", fault: true, want: constant(fhPanic), run: func(e *fhEnv) string {
		var el *secp256k1.Element
		return fmt.Sprintf("%x", el.Encode())
	}})

	// ---- scalar decoders -------------------------------------------------------------------------------
	sPat := ref.Mod(ref.OS2IP(fill(32, 2)), ref.N)
	nm1 := new(big.Int).Sub(ref.N, one)

	type sdec struct {
		n string
		f func(s *secp256k1.Scalar, b []byte) error
	}

	sdecs := []sdec{{"Decode", (*secp256k1.Scalar).Decode}, {"UnmarshalBinary", (*secp256k1.Scalar).UnmarshalBinary}}

	sIn := []namedBytes{
		{"7", ref.Bytes32(big.NewInt(7))}, {"n-1", ref.Bytes32(nm1)}, {"pattern", ref.Bytes32(sPat)}, {"0", ref.Bytes32(big.NewInt(0))},
		{"n", ref.Bytes32(ref.N)}, {"2^256-1", ref.Bytes32(new(big.Int).Sub(ref.Two256(), one))}, {"empty", []byte{}},
		{"31 bytes", ref.Bytes32(sPat)[:31]}, {"33 bytes", append(ref.Bytes32(big.NewInt(7)), 7)}, {"1 byte", []byte{7}},
	}

	sWant := func(b []byte) (string, bool) {
		if len(b) != 32 || ref.OS2IP(b).Cmp(ref.N) >= 0 {
			return fhErr, false
		}

		return fmt.Sprintf("ok:%x", b), true
	}

	for _, d := range sdecs {
		d := d

		for _, in := range sIn {
			in := in
			w, ok := sWant(in.b)
			add(fhOp{name: "Scalar." + d.n + "(" + in.n + ")", fam: "sdec", fault: !ok, want: constant(w), run: func(e *fhEnv) string {
				s := secp256k1.NewScalar()
				return fhScalarObs(s, d.f(s, e.slice("Scalar."+d.n, in.b)))
			}})
		}
	}

	hexP := hex.EncodeToString(ref.Bytes32(sPat))
	hex7 := hex.EncodeToString(ref.Bytes32(big.NewInt(7)))

	for _, in := range []struct{ n, s string }{
		{"hex(pattern)", hexP}, {"HEX(pattern)", strings.ToUpper(hexP)}, {"hex(7)", hex7}, {"hex(n-1)", hex.EncodeToString(ref.Bytes32(nm1))},
		{"hex(n)", hex.EncodeToString(ref.Bytes32(ref.N))}, {"63 digits", hexP[:63]}, {"65 digits", hexP + "0"}, {"61 digits", hexP[:61]},
		{"1 digit", "7"}, {"07", "07"}, {"empty string", ""}, {"bad first digit", "g" + hexP[1:]}, {"bad last digit", hexP[:63] + "g"},
		{"bad digit at 40", hexP[:40] + "_" + hexP[41:]}, {"66 digits", hexP + "00"}, {"62 digits", hexP[:62]}, {"0x-prefixed", "0x" + hexP},
	} {
		in := in
		w := fhErr
		ok := false

		if b, err := hex.DecodeString(in.s); err == nil {
			w, ok = sWant(b)
		}

		add(fhOp{name: "Scalar.DecodeHex(" + in.n + ")", fam: "sdec", fault: !ok, want: constant(w), run: func(e *fhEnv) string {
			s := secp256k1.NewScalar()
			return fhScalarObs(s, s.DecodeHex(in.s))
		}})
	}

	add(fhOp{name: "(*Scalar)(nil).Decode(7)", fam: "sdec", fault: true, want: constant(fhPanic), run: func(e *fhEnv) string {
		var s *secp256k1.Scalar
		return fhScalarObs(s, s.Decode(ref.Bytes32(big.NewInt(7))))
	}})
	add(fhOp{name: "(*Scalar)(nil).DecodeHex(hex(7))", fam: "sdec", fault: true, want: constant(fhPanic), run: func(e *fhEnv) string {
		var s *secp256k1.Scalar
		return fhScalarObs(s, s.DecodeHex(hex7))
	}})

	// ---- scalar encoders and arithmetic ---------------------------------------------------------------------
	add(fhOp{name: "Scalar encoders(pattern)", fam: "senc", want: constant(fmt.Sprintf("%x/%x/%s", ref.Bytes32(sPat), ref.Bytes32(sPat), hexP)), run: func(e *fhEnv) string {
		s := newScalar(sPat)
		a := s.Encode()
		m, err := s.MarshalBinary()
		if err != nil {
			return fhErr
		}

		o := fmt.Sprintf("%x/%x/%s", a, m, s.Hex())
		scribble(a)
		scribble(m)

		return o
	}})

	add(fhOp{name: "Scalar encoders(7)", fam: "senc", want: constant(fmt.Sprintf("%x/%s", ref.Bytes32(big.NewInt(7)), hex7)), run: func(e *fhEnv) string {
		s := newScalar(big.NewInt(7))
		a := s.Encode()
		o := fmt.Sprintf("%x/%s", a, s.Hex())
		scribble(a)

		return o
	}})

	zn := ref.Zn
	add(fhOp{name: "scalar arithmetic(pattern, n-1)", fam: "sarith", want: constant(fmt.Sprintf("%x %x %x %x %x %x",
		ref.Bytes32(zn.Add(sPat, nm1)), ref.Bytes32(zn.Sub(sPat, nm1)), ref.Bytes32(zn.Mul(sPat, nm1)), ref.Bytes32(zn.Sqr(sPat)), ref.Bytes32(zn.Inv0(sPat)), ref.Bytes32(zn.Exp(sPat, big.NewInt(0x10001))))),
		run: func(e *fhEnv) string {
			a, b := newScalar(sPat), newScalar(nm1)
			return fmt.Sprintf("%x %x %x %x %x %x", a.Copy().Add(b).Encode(), a.Copy().Subtract(b).Encode(), a.Copy().Multiply(b).Encode(),
				a.Copy().Square().Encode(), a.Copy().Invert().Encode(), a.Copy().Pow(newScalar(big.NewInt(0x10001))).Encode())
		}})
	add(fhOp{name: "scalar nil forms and constants", fam: "sarith", want: constant(fmt.Sprintf("%x %x %x %x %x %x", ref.Bytes32(sPat), ref.Bytes32(sPat), make([]byte, 32), make([]byte, 32), ref.Bytes32(one), ref.Bytes32(nm1))),
		run: func(e *fhEnv) string {
			return fmt.Sprintf("%x %x %x %x %x %x", newScalar(sPat).Add(nil).Encode(), newScalar(sPat).Subtract(nil).Encode(), newScalar(sPat).Multiply(nil).Encode(),
				newScalar(sPat).Set(nil).Encode(), newScalar(sPat).One().Encode(), newScalar(sPat).MinusOne().Encode())
		}})
	add(fhOp{name: "scalar comparisons", fam: "cmp", want: constant("1 0 1 0 false true true 7 n-1"), run: func(e *fhEnv) string {
		a, b := newScalar(big.NewInt(7)), newScalar(nm1)
		sel0, sel1 := secp256k1.NewScalar(), secp256k1.NewScalar()

		if sel0.CSelect(0, a, b) != nil || sel1.CSelect(1, a, b) != nil {
			return fhErr
		}

		name := func(s *secp256k1.Scalar) string {
			switch {
			case s.Equal(a) == 1:
				return "7"
			case s.Equal(b) == 1:
				return "n-1"
			}

			return "neither"
		}

		return fmt.Sprintf("%d %d %d %d %v %v %v %s %s", a.LessOrEqual(b), b.LessOrEqual(a), a.Equal(a.Copy()), a.Equal(b), a.IsZero(), secp256k1.NewScalar().IsZero(), secp256k1.NewScalar().One().IsOne(), name(sel0), name(sel1))
	}})
	add(fhOp{name: "CSelect(1, nil, x)", fam: "cmp", fault: true, want: constant(fhErr), run: func(e *fhEnv) string {
		s := secp256k1.NewScalar()
		return fhScalarObs(s, s.CSelect(1, nil, newScalar(sPat)))
	}})

	for _, v := range []*big.Int{sPat, nm1} {
		v := v
		add(fhOp{name: fmt.Sprintf("Bits(%x)", v), fam: "bits", want: constant(bitsWant(v)), run: func(e *fhEnv) string {
			bits := newScalar(v).Bits()
			var sb strings.Builder

			for _, b := range bits {
				sb.WriteByte('0' + b)
			}

			return sb.String()
		}})
	}

	add(fhOp{name: "(*Scalar)(nil).Invert()", fam: "sarith", fault: true, want: constant(fhPanic), run: func(e *fhEnv) string {
		var s *secp256k1.Scalar
		return fhScalarObs(s.Invert(), nil)
	}})
	add(fhOp{name: "(*Scalar)(nil).Bits()", fam: "bits", fault: true, want: constant(fhPanic), run: func(e *fhEnv) string {
		var s *secp256k1.Scalar
		return fmt.Sprint(s.Bits())
	}})

	// ---- small results (leading zero bytes: padding code) ------------------------------------------------------
	add(fhOp{name: "scalar arithmetic with small results", fam: "sarith", want: constant(fmt.Sprintf("%x %x %x %x %x", ref.Bytes32(big.NewInt(8)), ref.Bytes32(big.NewInt(6)), ref.Bytes32(big.NewInt(2)), ref.Bytes32(one), ref.Bytes32(big.NewInt(0)))),
		run: func(e *fhEnv) string {
			two, three := newScalar(big.NewInt(2)), newScalar(big.NewInt(3))
			return fmt.Sprintf("%x %x %x %x %x", two.Copy().Pow(three).Encode(), two.Copy().Multiply(three).Encode(), newScalar(one).Add(newScalar(one)).Encode(),
				newScalar(one).Invert().Encode(), two.Copy().Subtract(two).Encode())
		}})

	// ---- persistent receivers -------------------------------------------------------------------------------
	// decodes into ONE scalar and ONE element that live through the sequence, and operations that must agree with
	// whatever limbs these objects hold at that moment
	for _, in := range []namedBytes{{"7", ref.Bytes32(big.NewInt(7))}, {"pattern", ref.Bytes32(sPat)}, {"n+5", ref.Bytes32(new(big.Int).Add(ref.N, big.NewInt(5)))},
		{"2^256-1", ref.Bytes32(new(big.Int).Sub(ref.Two256(), one))}, {"31 bytes", ref.Bytes32(sPat)[:31]}} {
		in := in
		w, ok := sWant(in.b)

		if ok {
			w = "ok"
		}

		add(fhOp{name: "persistent scalar.Decode(" + in.n + ")", fam: "psdec", fault: !ok, want: constant(w), run: func(e *fhEnv) string {
			if err := e.scalar().Decode(in.b); err != nil {
				return fhErr
			}

			return "ok"
		}})
	}

	add(fhOp{name: "persistent scalar.DecodeHex(bad digit at 40)", fam: "psdec", fault: true, want: constant(fhErr), run: func(e *fhEnv) string {
		if err := e.scalar().DecodeHex(hexP[:40] + "_" + hexP[41:]); err != nil {
			return fhErr
		}

		return "ok"
	}})
	add(fhOp{name: "persistent scalar.Add(3)", fam: "psdec", want: constant("ok"), run: func(e *fhEnv) string {
		e.scalar().Add(newScalar(big.NewInt(3)))
		return "ok"
	}})
	add(fhOp{name: "[persistent scalar]H", fam: "emul", heavy: true,
		want: func(e *fhEnv) string { return fhPtObs(ref.Secp.Mul(e.psValue(), h)) },
		run:  func(e *fhEnv) string { return fhElemObs(newElement(Rep{h, one}).Multiply(e.scalar()), nil) }})
	add(fhOp{name: "Bits/Encode/Hex(persistent scalar)", fam: "bits",
		want: func(e *fhEnv) string {
			v := e.psValue()
			return bitsWant(v) + fmt.Sprintf(" %x %x", ref.Bytes32(v), ref.Bytes32(v))
		},
		run: func(e *fhEnv) string {
			bits := e.scalar().Bits()
			var sb strings.Builder

			for _, b := range bits {
				sb.WriteByte('0' + b)
			}

			return sb.String() + fmt.Sprintf(" %x %s", e.scalar().Encode(), e.scalar().Hex())
		}})
	add(fhOp{name: "comparisons(persistent scalar)", fam: "cmp",
		want: func(e *fhEnv) string {
			v := e.psValue()
			le := func(a, b *big.Int) int {
				if a.Cmp(b) <= 0 {
					return 1
				}

				return 0
			}

			return fmt.Sprintf("%d %d %d %v %v", le(v, sPat), le(sPat, v), le(v, v), v.Sign() == 0, v.Cmp(one) == 0)
		},
		run: func(e *fhEnv) string {
			s, o := e.scalar(), newScalar(sPat)
			return fmt.Sprintf("%d %d %d %v %v", s.LessOrEqual(o), o.LessOrEqual(s), s.LessOrEqual(s.Copy()), s.IsZero(), s.IsOne())
		}})
	add(fhOp{name: "arithmetic(persistent scalar)", fam: "sarith",
		want: func(e *fhEnv) string {
			v := e.psValue()
			return fmt.Sprintf("%x %x %x", ref.Bytes32(zn.Add(v, sPat)), ref.Bytes32(zn.Mul(sPat, v)), ref.Bytes32(zn.Inv0(v)))
		},
		run: func(e *fhEnv) string {
			s := e.scalar()
			return fmt.Sprintf("%x %x %x", s.Copy().Add(newScalar(sPat)).Encode(), newScalar(sPat).Multiply(s).Encode(), s.Copy().Invert().Encode())
		}})

	for _, in := range append([]namedBytes{{"enc(5G)", ref.Enc(g5)}, {"unc(H)", ref.EncUncompressed(h)}}, invalid[:6]...) {
		in := in
		_, ok := ref.Dec(in.b, ref.FormAny)
		w := fhErr

		if ok {
			w = "ok"
		}

		add(fhOp{name: "persistent element.Decode(" + in.n + ")", fam: "pedec", fault: !ok, want: constant(w), run: func(e *fhEnv) string {
			if err := e.element().Decode(e.slice("persistent element.Decode", in.b)); err != nil {
				return fhErr
			}

			return "ok"
		}})
	}

	add(fhOp{name: "persistent element.Double()", fam: "pedec", want: constant("ok"), run: func(e *fhEnv) string {
		e.element().Double()
		return "ok"
	}})

	peWant := func(f func(p ref.Pt) string) func(e *fhEnv) string {
		return func(e *fhEnv) string {
			p, ok := e.peValue()
			if !ok {
				return "receiver left in a state that is no curve point"
			}

			return f(p)
		}
	}

	add(fhOp{name: "H + persistent element, H - it, it.Copy() + H", fam: "earith",
		want: peWant(func(p ref.Pt) string {
			return fhPtObs(ref.Secp.Add(h, p)) + fhPtObs(ref.Secp.Sub(h, p)) + fhPtObs(ref.Secp.Add(p, h))
		}),
		run: func(e *fhEnv) string {
			return fhElemObs(newElement(Rep{h, one}).Add(e.element()), nil) + fhElemObs(newElement(Rep{h, big.NewInt(2)}).Subtract(e.element()), nil) +
				fhElemObs(e.element().Copy().Add(newElement(Rep{h, one})), nil)
		}})
	add(fhOp{name: "Equal/IsIdentity(persistent element)", fam: "eq",
		want: peWant(func(p ref.Pt) string {
			return fmt.Sprint(b2i(p.Eq(g5)), b2i(p.Eq(g5)), b2i(p.Eq(h)), 1, p.Inf)
		}),
		run: func(e *fhEnv) string {
			pe := e.element()
			a, b := newElement(Rep{g5, big.NewInt(2)}), newElement(Rep{h, one})

			return fmt.Sprint(pe.Equal(a), a.Equal(pe), pe.Equal(b), pe.Equal(pe.Copy()), pe.IsIdentity())
		}})
	add(fhOp{name: "encoders(persistent element)", fam: "eenc",
		want: peWant(func(p ref.Pt) string { return fmt.Sprintf("%x/%x", ref.Enc(p), fhEncUncompressed(p)) }),
		run: func(e *fhEnv) string {
			c, u := e.element().Encode(), e.element().EncodeUncompressed()
			s := fmt.Sprintf("%x/%x", c, u)
			scribble(c)
			scribble(u)

			return s
		}})

	// ---- hashing -----------------------------------------------------------------------------------------
	msgs := []namedBytes{{"m1", []byte("m1")}, {"abc", []byte("abc")}}
	dsts := []namedBytes{
		{"QUUX-RO", []byte("QUUX-V01-CS02-with-secp256k1_XMD:SHA-256_SSWU_RO_")}, {"D16", fill(16, 1)}, {"D40", fill(40, 0)},
		{"D255", fill(255, 1)}, {"D256", fill(256, 1)}, {"D300", fill(300, 2)}, {"D1", []byte{7}},
	}

	type hfn struct {
		n     string
		fam   string
		heavy bool
		call  func(m, d []byte) string
		or    func(m, d []byte) string
	}

	hfns := []hfn{
		{"HashToScalar", "hashs", false, func(m, d []byte) string { return fhScalarObs(secp256k1.HashToScalar(m, d), nil) }, func(m, d []byte) string { return fmt.Sprintf("ok:%x", ref.Bytes32(ref.HashToScalar(m, d))) }},
		{"HashToGroup", "hashg", true, func(m, d []byte) string { return fhElemObs(secp256k1.HashToGroup(m, d), nil) }, func(m, d []byte) string { return fhPtObs(ref.HashToCurve(m, d)) }},
		{"EncodeToGroup", "hashg", true, func(m, d []byte) string { return fhElemObs(secp256k1.EncodeToGroup(m, d), nil) }, func(m, d []byte) string { return fhPtObs(ref.EncodeToCurve(m, d)) }},
	}

	for _, f := range hfns {
		f := f

		for mi, m := range msgs {
			m := m

			for _, d := range dsts {
				d := d

				if mi > 0 && len(d.b) != 16 && len(d.b) != 300 {
					continue
				}

				add(fhOp{name: f.n + "(" + m.n + "," + d.n + ")", fam: f.fam, heavy: f.heavy, fault: len(d.b) > 255, want: constant(f.or(m.b, d.b)), run: func(e *fhEnv) string {
					return f.call(e.slice(f.n+" message", m.b), e.slice(f.n+" DST", d.b))
				}})
			}
		}

		// zero-length DSTs: nil, empty, and an empty window of a caller buffer with spare capacity - all must panic
		for _, z := range []string{"nil", "empty", "empty-with-capacity"} {
			z := z
			add(fhOp{name: f.n + "(m1, zero-length DST: " + z + ")", fam: f.fam, fault: true, want: constant(fhPanic), run: func(e *fhEnv) string {
				var d []byte

				switch z {
				case "empty":
					d = []byte{}
				case "empty-with-capacity":
					d = e.slice(f.n+" zero-length DST", nil)
				}

				return f.call(e.slice(f.n+" message", []byte("m1")), d)
			}})
		}
	}

	// ---- Random ---------------------------------------------------------------------------------------------
	randWant := func(e *fhEnv) string {
		v := ref.Mod(ref.OS2IP(fhStream(e.rd.pos, 32)), ref.N)
		return fmt.Sprintf("ok:%x consumed=32", ref.Bytes32(v))
	}

	for _, prior := range []*big.Int{big.NewInt(0), one} {
		prior := prior
		add(fhOp{name: fmt.Sprintf("Scalar(%v).Random()", prior), fam: "rand", want: randWant, run: func(e *fhEnv) string {
			p0 := e.rd.pos
			s := newScalar(prior).Random()

			return fmt.Sprintf("ok:%x consumed=%d", s.Encode(), e.rd.pos-p0)
		}})
	}

	add(fhOp{name: "(*Scalar)(nil).Random()", fam: "rand", fault: true, want: constant(fhPanic), run: func(e *fhEnv) string {
		var s *secp256k1.Scalar
		return fhScalarObs(s.Random(), nil)
	}})

	for _, after := range []int{0, 1, 31} {
		after := after
		add(fhOp{name: fmt.Sprintf("Random() with the entropy source failing after %d bytes", after), fam: "rand", fault: true, want: constant(fhPanic), run: func(e *fhEnv) string {
			e.rd.failIn = after
			defer func() { e.rd.failIn = -1 }()

			return fhScalarObs(secp256k1.NewScalar().Random(), nil)
		}})
	}

	// ---- map to curve and field layer ---------------------------------------------------------------------------
	for _, u := range []*big.Int{big.NewInt(0), big.NewInt(5), ref.Mod(ref.OS2IP(fill(32, 1)), ref.P)} {
		u := u
		add(fhOp{name: fmt.Sprintf("Isogeny(SSWU(%x))", u), fam: "map", want: constant(fhPtObs(ref.MapToCurve(u))), run: func(e *fhEnv) string {
			return fhElemObs(secp256k1.IsogenySecp256k13iso(secp256k1.SSWU(feVal(u))), nil)
		}})
	}

	// ---- field layer (C12): the internal package is the property's anchor; the harness calls it as the root package does
	feHex := func(fe *field.Element) string {
		return fmt.Sprintf("%x", ref.Bytes32(ref.Unmont([4]uint64(fe.E), ref.P)))
	}
	w48a, w48b := fill(48, 1), append(bytes.Repeat([]byte{0xff}, 40), fill(8, 2)...)

	for _, w := range [][]byte{w48a, w48b} {
		w := w
		add(fhOp{name: fmt.Sprintf("field.HashToFieldElement(%x..)", w[:4]), fam: "field", want: constant(fmt.Sprintf("%x", ref.Bytes32(ref.Mod(ref.OS2IP(w), ref.P)))),
			run: func(e *fhEnv) string { return feHex(field.New().HashToFieldElement([48]byte(w))) }})
	}

	for _, n := range []int{1, 16, 24, 31, 32} {
		n := n
		in := fill(32, 2)[32-n:]
		in[0] &= 0x7f
		add(fhOp{name: fmt.Sprintf("field.FromBytesNoReduce(%d bytes)", n), fam: "field", want: constant(fmt.Sprintf("%x", ref.Bytes32(ref.OS2IP(in)))),
			run: func(e *fhEnv) string {
				return feHex(field.New().FromBytesNoReduce(e.slice("field.FromBytesNoReduce", in)))
			}})
		add(fhOp{name: fmt.Sprintf("(*field.Element)(nil).FromBytesNoReduce(%d bytes)", n), fam: "field", fault: true, want: constant(fhPanic),
			run: func(e *fhEnv) string {
				var fe *field.Element
				return feHex(fe.FromBytesNoReduce(e.slice("nil.FromBytesNoReduce", in)))
			}})
	}

	for _, v := range []*big.Int{big.NewInt(5), new(big.Int).Sub(ref.P, one), ref.P, new(big.Int).Sub(ref.Two256(), one)} {
		v := v
		w := fmt.Sprintf("%x 1", ref.Bytes32(v))

		if v.Cmp(ref.P) >= 0 {
			w = "rejected"
		}

		add(fhOp{name: fmt.Sprintf("field.FromBytesWithReduce(%x)", v), fam: "field", fault: v.Cmp(ref.P) >= 0, want: constant(w),
			run: func(e *fhEnv) string {
				fe, ok := field.New().FromBytesWithReduce(ref.Arr32(v))
				if ok != 1 {
					return "rejected"
				}

				return feHex(fe) + " 1"
			}})
	}

	fa, fb := ref.Mod(ref.OS2IP(fill(32, 1)), ref.P), big.NewInt(3)
	add(fhOp{name: "field arithmetic", fam: "field", want: constant(fmt.Sprintf("%x %x %x %x %x", ref.Bytes32(ref.Fp.Add(fa, fb)), ref.Bytes32(ref.Fp.Sub(fb, fa)), ref.Bytes32(ref.Fp.Mul(fa, fb)), ref.Bytes32(ref.Fp.Inv0(fa)), ref.Bytes32(ref.Fp.Neg(fb)))),
		run: func(e *fhEnv) string {
			a, b := feVal(fa), feVal(fb)
			inv := field.New()
			inv.Invert(*a)

			return fmt.Sprintf("%s %s %s %s %s", feHex(field.New().Add(a, b)), feHex(field.New().Subtract(b, a)), feHex(field.New().Multiply(a, b)), feHex(inv), feHex(field.New().Negate(b)))
		}})
	add(fhOp{name: "(*field.Element)(nil).Add / Bytes", fam: "field", fault: true, want: constant(fhPanic), run: func(e *fhEnv) string {
		var fe *field.Element
		return feHex(fe.Add(feVal(fa), feVal(fb))) + fmt.Sprintf("%x", fe.Bytes())
	}})

	fhOpsMemo = ops

	return ops
}

// families whose operations a property speaks about
var fhFamilies = map[string][]string{
	"C01": {"emul"}, "C02": {"earith"}, "C03": {"edec"}, "C04": {"eenc", "edec"}, "C05": {"eq"}, "C06": {"sarith"}, "C07": {"sdec", "senc"},
	"C08": {"hashg"}, "C09": {"hashs"}, "C10": {"edec", "eenc", "earith", "emul", "eq", "sarith", "sdec", "senc", "cmp", "bits", "hashg", "hashs"},
	"C11": {"map"}, "C12": {"field"}, "C13": {"cmp"}, "C14": {"bits"}, "C15": {"edec", "sdec", "hashg", "hashs", "eenc", "senc"}, "C18": {"rand"},
}

func fhIn(fams []string, f string) bool {
	for _, x := range fams {
		if x == f {
			return true
		}
	}

	return false
}

// fhRun executes one sequence; only the LAST step is judged (the earlier steps are judged as last steps of their
// own, shorter sequences). buffers: report modifications of caller memory (C15) instead of wrong results.
func fhRun(seq []int, buffers bool) (key, detail string) {
	ops := fhOps()
	env := &fhEnv{rd: &fhReader{failIn: -1}, keepReturned: buffers}
	saved := rand.Reader
	rand.Reader = env.rd
	fhCurrent = env

	defer func() { rand.Reader, fhCurrent = saved, nil }()

	names := make([]string, len(seq))
	for i, s := range seq {
		names[i] = ops[s].name
	}

	for i, s := range seq {
		o := ops[s]
		want := o.want(env)
		got := o.run(env)
		last := i == len(seq)-1

		if o.calib {
			c, ok := fhCalibrated[o.name]
			if !ok {
				continue // not calibrated (the cold runs disagreed): no statement about this call
			}

			want, got = c, fhClass(got)
		}

		if buffers {
			if m := env.modified(); m != "" {
				return "caller-memory-modified-after-history/" + o.fam, fmt.Sprintf("history [%s]: after step %d: %s", strings.Join(names, " ; "), i, m)
			}

			continue
		}

		if last && got != want {
			cls := "ordinary-call"
			if o.fault {
				cls = "failing-or-unusual-call"
			}

			return fmt.Sprintf("history-dependent-result/%s/%s", o.fam, cls), fmt.Sprintf("history [%s]: the last call observed %q, the model prescribes %q", strings.Join(names, " ; "), clip(got), clip(want))
		}
	}

	return "", ""
}

// fhCalibrated: class of the observation of the calls whose behaviour no property specifies, as this tree shows it
// when the call is the first one after process start.
var fhCalibrated = map[string]string{}

func fhClass(obs string) string {
	switch {
	case obs == fhPanic, obs == fhErr:
		return obs
	case strings.HasPrefix(obs, "ok"):
		return "ok"
	}

	return "value"
}

func fhCalibrate() {
	for _, o := range fhOps() {
		if !o.calib {
			continue
		}

		if _, done := fhCalibrated[o.name]; done {
			continue
		}

		a := fhClass(o.run(&fhEnv{rd: &fhReader{failIn: -1}}))
		b := fhClass(o.run(&fhEnv{rd: &fhReader{failIn: -1}}))

		if a == b {
			fhCalibrated[o.name] = a
		}
	}
}

func clip(s string) string {
	if len(s) > 160 {
		return s[:160] + "..."
	}

	return s
}

func fhSeqString(seq []int) string {
	var p []string
	for _, s := range seq {
		p = append(p, fmt.Sprint(s))
	}

	return strings.Join(p, ",")
}

// faultPart is the part "<Cxx>fault".
func faultPart(prop string) func(r *ev.Report) {
	return func(r *ev.Report) {
		ops := fhOps()
		fams := fhFamilies[prop]
		buffers := prop == "C15"

		saved := rand.Reader
		rand.Reader = &fhReader{failIn: -1}
		fhCalibrate()
		rand.Reader = saved

		si, sn := 0, 1
		fmt.Sscanf(os.Getenv("VERIF_SHARD"), "%d/%d", &si, &sn)

		if sn < 1 {
			sn = 1
		}

		r.Rule("fault histories: a catalogue of concrete API calls (every decoder x valid / malformed inputs, textual forms, encoders, group and scalar arithmetic, comparisons, Bits, the three hashing functions x DST classes incl. oversize and zero-length, Random on a stream of distinct blocks incl. failing sources, nil receivers - for these, whose behaviour no property specifies, only the class panic / error / value is compared, with what the tree itself does when the call comes first; failing calls are recovered by the caller) with the observation the model prescribes for each; on one goroutine per process, ALL sequences [A, C] over the catalogue and ALL sequences [A, F, C] and [F, A, C] with F a failing or unusual call and A, C of one family, C ranging over the families of this property; oracle: the last call's observation equals the model's regardless of the history (C15: every buffer handed to any call of the history, and every slice a call of the history RETURNED, is bit-identical over its whole backing array after every later step); returned slices are overwritten by the caller over their full capacity; observation without verdict: whether method values of the read-only methods bound before an in-place change describe the current value")
		r.Bound("catalogue", len(ops))
		r.Bound("shard", fmt.Sprintf("%d/%d", si, sn))

		// method values bound before an in-place change (see boundmethods.go), for the operations of this property;
		// shard 0 only
		if si == 0 && !buffers {
			// recorded, not judged: with a value receiver a method value IS a snapshot by the language's definition, and
			// the properties quantify over values, not over the time a method value was formed (seeded change C14-15)
			n := boundMethodViolations(prop, func(key, detail string, c Case) { r.Note("observation (no verdict): %s: %s", key, detail) })
			r.Bound("bound_method_value_cases", n)
			r.Evals.Add(int64(n))
		}

		var faults, targets []int

		for i, o := range ops {
			if o.fault {
				faults = append(faults, i)
			}

			if fhIn(fams, o.fam) {
				targets = append(targets, i)
			}
		}

		r.Bound("failing_or_unusual_calls", len(faults))
		r.Bound("target_calls", len(targets))

		var seqs [][]int

		// cold: every target as the first call after process start (the hostile-caller prelude has run)
		for _, c := range targets {
			seqs = append(seqs, []int{c})
		}

		for a := range ops {
			for _, c := range targets {
				seqs = append(seqs, []int{a, c})
			}
		}

		for _, c := range targets {
			for a, oa := range ops {
				if oa.fam != ops[c].fam && oa.fam != "psdec" && oa.fam != "pedec" {
					continue
				}

				for _, f := range faults {
					if ops[f].heavy && oa.heavy && ops[c].heavy && !ev.Thorough() && a != c {
						continue
					}

					seqs = append(seqs, []int{a, f, c})

					if oa.fam == ops[c].fam {
						seqs = append(seqs, []int{f, a, c}) // two ordinary calls after the failing one
					}
				}
			}
		}

		// thorough: two failing calls between a call and its repetition
		if ev.Thorough() {
			for _, c := range targets {
				for _, f1 := range faults {
					for _, f2 := range faults {
						if ops[c].heavy && (ops[f1].heavy || ops[f2].heavy) {
							continue
						}

						seqs = append(seqs, []int{c, f1, f2, c})
					}
				}
			}
		}

		r.Bound("sequences_total", len(seqs))

		outcomes := map[string]bool{}

		// the two sequences this process ran before the current one: what they leave in the library is part of the
		// history of the current one, and a replay runs them first
		var prev1, prev2 []int

		for i, seq := range seqs {
			if i%sn != si {
				continue
			}

			if i%64 == 0 && r.Expired() {
				r.Incomplete("wall-clock guard")
				break
			}

			key, detail := fhRun(seq, buffers)
			before := fhSeqString(prev2) + ";" + fhSeqString(prev1)
			prev2, prev1 = prev1, seq
			r.Evals.Add(1)
			r.States.Add(1)
			r.Transitions.Add(int64(len(seq)))
			outcomes[ops[seq[len(seq)-1]].want(&fhEnv{rd: &fhReader{failIn: -1}})] = true

			if len(seq) >= 3 {
				r.Count("histories_with_a_failing_call_in_the_middle", 1)
			}

			if key != "" {
				r.Violation(key, detail, Case{"op": "faulthist", "seq": fhSeqString(seq), "buffers": fmt.Sprint(buffers), "before": before})
			}
		}

		r.Distinct.Add(int64(len(outcomes)))
		r.Sample(Case{"op": "faulthist", "seq": "0,1", "buffers": fmt.Sprint(buffers)})
	}
}

// ReplayFaultHist re-executes one recorded fault history.
func ReplayFaultHist(c Case) (bool, string) {
	var seq []int

	for _, f := range strings.Split(c["seq"], ",") {
		var i int
		fmt.Sscan(f, &i)
		seq = append(seq, i)
	}

	for _, s := range seq {
		if s < 0 || s >= len(fhOps()) {
			return false, "history does not apply to this catalogue"
		}
	}

	fhCalibrate()

	for _, b := range strings.Split(c["before"], ";") {
		var pre []int

		for _, f := range strings.Split(b, ",") {
			var i int
			if _, err := fmt.Sscan(f, &i); err == nil && i >= 0 && i < len(fhOps()) {
				pre = append(pre, i)
			}
		}

		if len(pre) > 0 {
			fhRun(pre, false)
		}
	}

	key, detail := fhRun(seq, c["buffers"] == "true")

	return key == "", key + " " + detail
}

func init() {
	for p := range fhFamilies {
		Parts[p+"fault"] = Part{p, faultPart(p)}
	}
}
