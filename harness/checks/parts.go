package checks

import "github.com/bytemare/secp256k1/internal/verif/ev"

// Part is one sub-check of a property that runs in this binary.
type Part struct {
	Property string
	Run      func(r *ev.Report)
}

// Parts lists the sub-checks by name.
var Parts = map[string]Part{}

func init() { Parts["C14"] = Part{"C14", C14} }
