package checks

import (
	"fmt"
	"math/big"

	"github.com/bytemare/secp256k1/internal/verif/ev"
	"github.com/bytemare/secp256k1/internal/verif/ref"
)

// Behaviour replay of the scaled-down instance (DESIGN.md section 3.5, item 4): every transition explored on the
// q = 13 model - element [i]g of the small curve (i in 0..6) in scaling l (l in 1..12) - is re-executed on the real
// curve with the corresponding operands ([i]G in scaling l, same scalars) and compared with the math/big model
// there. Each model behaviour thus has a checked implementation counterpart; the number of transitions replayed is
// reported as traces_validated_against_impl.

const (
	replayOrder = 7  // group order of y^2 = x^3 + 7 over F_13
	replayQ     = 13 // scalings 1..12
)

func replayReps() []Rep {
	var out []Rep

	for i := int64(0); i < replayOrder; i++ {
		p := ref.Secp.Mul(big.NewInt(i), ref.G())
		for l := int64(1); l < replayQ; l++ {
			out = append(out, Rep{p, big.NewInt(l)})
		}
	}

	return out
}

func replayRule(what string) string {
	return "behaviour replay of the q=13 model on the real curve: every " + what + " explored on the small instance ([i]g, i in 0..6, in every scaling l in 1..12) is re-executed with the corresponding operands [i]G in scaling l on secp256k1 and compared with the math/big model; counted as traces_validated_against_impl"
}

// C02replay: all 84^2 ordered pairs x {Add, Subtract} and the unary forms.
func C02replay(r *ev.Report) {
	reps := replayReps()
	r.Rule(replayRule("group-law transition"))
	r.States.Add(int64(len(reps) * len(reps)))

	r.ParFor(len(reps), func(_, i int) {
		for _, b := range reps {
			for _, op := range c02PairOps {
				r.Transitions.Add(1)
				r.Evals.Add(1)
				r.Traces.Add(1)

				if key, detail := c02Case(op, reps[i], b); key != "" {
					c := Case{"op": op}
					repCase("a", reps[i], c)
					repCase("b", b, c)
					r.Violation(key, detail, c)
				}
			}
		}

		for _, op := range c02UnaryOps {
			r.Transitions.Add(1)
			r.Evals.Add(1)
			r.Traces.Add(1)

			if key, detail := c02Case(op, reps[i], reps[i]); key != "" {
				c := Case{"op": op}
				repCase("a", reps[i], c)
				repCase("b", reps[i], c)
				r.Violation(key, detail, c)
			}
		}
	})

	r.Distinct.Add(int64(len(reps)))
	c := Case{"op": "Add"}
	repCase("a", reps[14], c)
	repCase("b", reps[80], c)
	r.Sample(c)
}

// C05replay: Equal on all 84^2 ordered pairs.
func C05replay(r *ev.Report) {
	reps := replayReps()
	r.Rule(replayRule("Equal / IsIdentity evaluation"))
	r.States.Add(int64(len(reps) * len(reps)))

	r.ParFor(len(reps), func(_, i int) {
		for _, b := range reps {
			r.Transitions.Add(2)
			r.Evals.Add(1)
			r.Traces.Add(1)

			if key, detail := c05Case(reps[i], b); key != "" {
				c := Case{"op": "Equal"}
				repCase("a", reps[i], c)
				repCase("b", b, c)
				r.Violation(key, detail, c)
			}
		}
	})

	r.Distinct.Add(int64(len(reps)))
	c := Case{"op": "Equal"}
	repCase("a", reps[14], c)
	repCase("b", reps[15], c)
	r.Sample(c)
}

// C04replay: encodings of all 84 representations.
func C04replay(r *ev.Report) {
	reps := replayReps()
	r.Rule(replayRule("encoding / round trip"))
	r.States.Add(int64(len(reps)))

	r.ParFor(len(reps), func(_, i int) {
		r.Transitions.Add(7)
		r.Evals.Add(1)
		r.Traces.Add(1)

		if key, detail := c04Case(reps[i]); key != "" {
			c := Case{"op": "encode"}
			repCase("p", reps[i], c)
			r.Violation(key, detail, c)
		}
	})

	r.Distinct.Add(int64(len(reps)))
	c := Case{"op": "encode"}
	repCase("p", reps[30], c)
	r.Sample(c)
}

// C01replay: Multiply from all 84 representations with the small-instance scalar list.
func C01replay(r *ev.Report) {
	reps := replayReps()
	one := big.NewInt(1)

	var ks []*big.Int

	for i := int64(0); i <= 2*replayOrder+2; i++ {
		ks = append(ks, big.NewInt(i))
	}

	ks = append(ks, new(big.Int).Sub(ref.N, one), new(big.Int).Sub(ref.N, big.NewInt(2)), new(big.Int).Lsh(one, 255),
		new(big.Int).Add(new(big.Int).Lsh(one, 255), one), ref.Mod(new(big.Int).Sub(ref.Two256(), new(big.Int).Lsh(one, 32)), ref.N))

	r.Rule(replayRule("Multiply transition (scalars 0..2N+2, n-1, n-2, 2^255, 2^255+1, 2^256-2^32 mod n)"))
	r.States.Add(int64(len(reps) * len(ks)))

	r.ParFor(len(reps), func(_, i int) {
		for _, k := range ks {
			r.Transitions.Add(1)
			r.Evals.Add(1)
			r.Traces.Add(1)

			if key, detail := c01Case(reps[i], k, ref.Secp.Mul(k, reps[i].P)); key != "" {
				c := Case{"op": "Multiply", "k": hx(k)}
				repCase("p", reps[i], c)
				r.Violation(key, detail, c)
			}
		}
	})

	r.Distinct.Add(int64(len(reps)))
	c := Case{"op": "Multiply", "k": hx(ks[len(ks)-3])}
	repCase("p", reps[30], c)
	r.Sample(c)
}

// C03replay: the accepted encodings of the small instance correspond to the encodings of [i]G; the rejected ones
// to their perturbations. Every decoder on the canonical encodings of the 6 non-identity points + identity and on
// single-byte perturbations of them.
func C03replay(r *ev.Report) {
	r.Rule(replayRule("decode of a canonical encoding and of its single-byte perturbations (prefix, first and last coordinate byte)"))

	var strs [][]byte

	for i := int64(0); i < replayOrder; i++ {
		p := ref.Secp.Mul(big.NewInt(i), ref.G())

		for _, enc := range [][]byte{ref.Enc(p), ref.EncUncompressed(p)} {
			strs = append(strs, enc)

			for _, pos := range []int{0, 1, len(enc) - 1} {
				if pos >= len(enc) {
					continue
				}

				for _, d := range []byte{1, 2, 4, 0x80} {
					b := append([]byte{}, enc...)
					b[pos] ^= d
					strs = append(strs, b)
				}
			}
		}
	}

	r.States.Add(int64(len(strs)))

	r.ParFor(len(strs), func(_, i int) {
		b := strs[i]
		nd := len(elemDecoders)

		if len(b) == 65 {
			nd++
		}

		for di := 0; di < nd; di++ {
			for which := 0; which < 2; which++ {
				r.Transitions.Add(1)
				r.Evals.Add(1)
				r.Traces.Add(1)

				if key, detail, _ := c03Case(di, b, which, nil); key != "" {
					r.Violation(key, detail, Case{"op": "decode", "decoder": fmt.Sprint(di), "input": hb(b), "receiver": fmt.Sprint(which)})
				}
			}
		}
	})

	r.Distinct.Add(int64(len(strs)))
	r.Sample(Case{"op": "decode", "decoder": "0", "input": hb(strs[1]), "receiver": "0"})
}

// C10replay: every 2-pool state of the q=13 closure sweep, re-built on the real curve, with every element
// operation instance of the real-curve history alphabet applied from it.
func C10replay(r *ev.Report) {
	reps := replayReps()
	r.Rule(replayRule("pool state (v0, v1) of the closure sweep, with every element operation instance of the history alphabet applied from it (scalar variables fixed to 2 and n-1)"))

	var ops []c10Op

	for _, o := range c10Ops() {
		if o.elem {
			ops = append(ops, o)
		}
	}

	r.Bound("operation_instances", len(ops))
	r.States.Add(int64(len(reps) * len(reps)))

	two, nm1 := big.NewInt(2), new(big.Int).Sub(ref.N, big.NewInt(1))

	r.ParFor(len(reps), func(_, i int) {
		for _, b := range reps {
			var (
				st c10State
				m  c10Model
			)

			st.e[0], st.e[1] = rawOf(newElement(reps[i])), rawOf(newElement(b))
			m.e[0], m.e[1] = reps[i].P, b.P
			st.s[0], st.s[1] = ref.Mont(two, ref.N), ref.Mont(nm1, ref.N)
			m.s[0], m.s[1] = two, nm1

			for oi, o := range ops {
				r.Transitions.Add(1)
				r.Evals.Add(1)
				r.Traces.Add(1)

				if _, _, key, detail := c10Apply(st, m, o); key != "" {
					c := Case{"op": "replay13", "opindex": fmt.Sprint(oi)}
					repCase("a", reps[i], c)
					repCase("b", b, c)
					r.Violation(key, detail, c)
				}
			}
		}
	})

	r.Distinct.Add(int64(len(reps) * len(reps)))
	c := Case{"op": "replay13", "opindex": "3"}
	repCase("a", reps[14], c)
	repCase("b", reps[80], c)
	r.Sample(c)
}

func init() {
	Parts["C01replay"] = Part{"C01", C01replay}
	Parts["C02replay"] = Part{"C02", C02replay}
	Parts["C03replay"] = Part{"C03", C03replay}
	Parts["C04replay"] = Part{"C04", C04replay}
	Parts["C05replay"] = Part{"C05", C05replay}
	Parts["C10replay"] = Part{"C10", C10replay}
}
