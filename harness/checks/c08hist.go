package checks

import (
	"bytes"
	"fmt"
	"sync"

	secp256k1 "github.com/bytemare/secp256k1"
	"github.com/bytemare/secp256k1/internal/verif/ev"
	"github.com/bytemare/secp256k1/internal/verif/ref"
)

// Histories of hashing calls in which the caller REUSES its buffers: the DST (and message) of every call is
// written into one long-lived backing array before the call, as a server that reads requests into a fixed buffer
// would do. The functions must be pure functions of the bytes they are given at call time: anything remembered
// from an earlier call by slice identity instead of by content (a cache keyed by the caller's slice, a retained
// DST') shows up as a stale result on a later step.

type histFn struct {
	name string
	call func(msg, dst []byte) []byte
	or   func(msg, dst []byte) []byte
}

var histFns = []histFn{
	{"HashToGroup", func(m, d []byte) []byte { return secp256k1.HashToGroup(m, d).Encode() }, func(m, d []byte) []byte { return ref.Enc(ref.HashToCurve(m, d)) }},
	{"EncodeToGroup", func(m, d []byte) []byte { return secp256k1.EncodeToGroup(m, d).Encode() }, func(m, d []byte) []byte { return ref.Enc(ref.EncodeToCurve(m, d)) }},
	{"HashToScalar", func(m, d []byte) []byte { return secp256k1.HashToScalar(m, d).Encode() }, func(m, d []byte) []byte { return ref.Bytes32(ref.HashToScalar(m, d)) }},
}

type histStep struct{ fn, msg, dst int }

func histContents() (msgs, dsts [][]byte) {
	msgs = [][]byte{[]byte("m1"), []byte("m2"), fill(70, 2)}

	for _, l := range []int{16, 255, 256, 300} {
		for k := 0; k < 3; k++ {
			dsts = append(dsts, fill(l, k))
		}
	}

	return msgs, dsts
}

var (
	histMemo sync.Map
)

func histExpected(fn int, msg, dst []byte) []byte {
	key := fmt.Sprintf("%d|%x|%x", fn, msg, dst)
	if v, ok := histMemo.Load(key); ok {
		return v.([]byte)
	}

	v := histFns[fn].or(msg, dst)
	histMemo.Store(key, v)

	return v
}

// histRun executes one history on a single reused message buffer and a single reused DST buffer.
func histRun(steps []histStep) (key, detail string) {
	msgs, dsts := histContents()
	mbuf, dbuf := make([]byte, 128), make([]byte, 512)

	for i, st := range steps {
		m := mbuf[:copy(mbuf, msgs[st.msg])]
		d := dbuf[:copy(dbuf, dsts[st.dst])]

		var got []byte

		if p := catchStr(func() { got = histFns[st.fn].call(m, d) }); p != "" {
			return histFns[st.fn].name + "/panic", p
		}

		if want := histExpected(st.fn, msgs[st.msg], dsts[st.dst]); !bytes.Equal(got, want) {
			return histFns[st.fn].name + "/stale-or-wrong-result-after-buffer-reuse/" + dstClass(dsts[st.dst]),
				fmt.Sprintf("history %v: step %d (%s, msg #%d, DST #%d of length %d written into the reused buffer) returned %x, want %x", steps, i, histFns[st.fn].name, st.msg, st.dst, len(dsts[st.dst]), got, want)
		}

		if !bytes.Equal(m, msgs[st.msg]) || !bytes.Equal(d, dsts[st.dst]) {
			return histFns[st.fn].name + "/input-modified", fmt.Sprintf("history %v step %d", steps, i)
		}
	}

	return "", ""
}

func histSteps(fns []int) [][]histStep {
	msgs, dsts := histContents()

	var out [][]histStep

	// depth 2: every (fn, msg, dst) followed by every (fn, msg, dst)
	var singles []histStep

	for _, f := range fns {
		for m := range msgs {
			for d := range dsts {
				singles = append(singles, histStep{f, m, d})
			}
		}
	}

	for _, a := range singles {
		for _, b := range singles {
			out = append(out, []histStep{a, b})
		}
	}

	// depth 3: the DST varies, function and message fixed
	for _, f := range fns {
		for a := range dsts {
			for b := range dsts {
				for c := range dsts {
					out = append(out, []histStep{{f, 0, a}, {f, 0, b}, {f, 0, c}})
				}
			}
		}
	}

	return out
}

func histPart(fns []int) func(r *ev.Report) {
	return func(r *ev.Report) {
		hs := histSteps(fns)
		r.Rule("histories with caller-side buffer reuse: every sequence of 2 calls over (function x 3 messages x 12 DST contents of lengths 16/255/256/300) and every sequence of 3 calls varying the DST, where each call's message and DST are first written into one long-lived backing array; every step must equal the oracle for the bytes present at call time (a result remembered by slice identity is stale on the next step); non-trivial = histories whose consecutive steps use different DST contents of the same length")
		r.Bound("histories", len(hs))
		r.Bound("max_depth", 3)
		r.States.Add(int64(len(hs)))

		_, dsts := histContents()

		r.ParFor(len(hs), func(_, i int) {
			h := hs[i]
			r.Transitions.Add(int64(len(h)))
			r.Evals.Add(1)

			for j := 1; j < len(h); j++ {
				if h[j].dst != h[j-1].dst && len(dsts[h[j].dst]) == len(dsts[h[j-1].dst]) {
					r.Distinct.Add(1)
					r.Count("same_length_dst_rewritten_in_place", 1)

					break
				}
			}

			if key, detail := histRun(h); key != "" {
				c := Case{"op": "history", "n": fmt.Sprint(len(h))}
				for j, st := range h {
					c[fmt.Sprintf("step%d", j)] = fmt.Sprintf("%d,%d,%d", st.fn, st.msg, st.dst)
				}

				r.Violation(key, detail, c)
			}
		})

		r.Sample(Case{"op": "history", "n": "2", "step0": "0,0,9", "step1": "0,0,10"})
		r.RequireNonVacuous("same_length_dst_rewritten_in_place")
	}
}

func histReplay(c Case) (bool, string) {
	var (
		n     int
		steps []histStep
	)

	fmt.Sscan(c["n"], &n)

	for j := 0; j < n; j++ {
		var st histStep
		fmt.Sscanf(c[fmt.Sprintf("step%d", j)], "%d,%d,%d", &st.fn, &st.msg, &st.dst)
		steps = append(steps, st)
	}

	key, detail := histRun(steps)

	return key == "", key + " " + detail
}

func init() {
	Parts["C08hist"] = Part{"C08", histPart([]int{0, 1})}
	Parts["C09hist"] = Part{"C09", histPart([]int{2})}
}
