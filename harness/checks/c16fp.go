package checks

import (
	"bytes"
	"fmt"

	secp256k1 "github.com/bytemare/secp256k1"
	"github.com/bytemare/secp256k1/internal/verif/conc"
	"github.com/bytemare/secp256k1/internal/verif/ev"
	"github.com/bytemare/secp256k1/internal/verif/prelude"
)

// C16footprint enumerates the write footprint of every operation of the concurrency alphabet on shared state:
// it must be empty. If every operation writes nothing that is shared, any two calls are independent in the
// partial-order sense and every interleaving is equivalent to a sequential one.
func C16footprint(r *ev.Report) {
	r.Rule("footprint enumeration: every operation of the concurrency alphabet x two complementary fills of the shared buffers; the set of shared bytes / limbs and package-level variables the call writes must be empty; non-trivial = all")
	r.Bound("alphabet", len(conc.Ops))

	globals := secp256k1.VerifAllGlobals()

	for i, op := range conc.Ops {
		for _, mask := range []byte{0x00, 0xff} {
			sh := conc.NewSharedFill(mask)
			before := sh.Snapshot()

			r.Transitions.Add(1)
			r.Evals.Add(1)
			r.States.Add(1)
			r.Distinct.Add(1)

			if p := catchStr(func() { op.Run(sh) }); p != "" {
				r.Violation("footprint/panic", op.Name+": "+p, Case{"op": "footprint", "i": fmt.Sprint(i)})
				continue
			}

			if after := sh.Snapshot(); !bytes.Equal(after, before) {
				off := 0
				for off < len(before) && before[off] == after[off] {
					off++
				}

				r.Violation("footprint/writes-shared-argument", fmt.Sprintf("%s (fill mask %#x): shared byte %d changed %#x -> %#x", op.Name, mask, off, before[off], after[off]), Case{"op": "footprint", "i": fmt.Sprint(i)})
			}

			if g := secp256k1.VerifAllGlobals(); g != globals {
				r.Violation("footprint/writes-package-level-variable", fmt.Sprintf("%s: %s -> %s", op.Name, globals, g), Case{"op": "footprint", "i": fmt.Sprint(i)})
				globals = g
			}
		}
	}

	if g := secp256k1.VerifAllGlobals(); prelude.Baseline != "" && g != prelude.Baseline {
		r.Violation("globals/differ-from-process-start", fmt.Sprintf("package-level state is not what it was before the first call into the library: %s -> %s", prelude.Baseline, g), Case{"op": "globals"})
	}

	r.Sample(Case{"op": "footprint", "i": "0", "name": conc.Ops[0].Name})
}

func init() {
	Parts["C16footprint"] = Part{"C16", C16footprint}
	Replayers["C16"] = func(c Case) (bool, string) {
		var i int
		fmt.Sscan(c["i"], &i)

		sh := conc.NewShared()
		before := sh.Snapshot()
		globals := secp256k1.VerifAllGlobals()
		conc.Ops[i].Run(sh)

		if !bytes.Equal(sh.Snapshot(), before) {
			return false, conc.Ops[i].Name + " writes to a shared argument"
		}

		if secp256k1.VerifAllGlobals() != globals {
			return false, conc.Ops[i].Name + " writes to a package-level variable"
		}

		return true, ""
	}
}
