package checks

import (
	"bytes"

	"github.com/bytemare/secp256k1/internal/verif/ev"
)

func fill(n int, kind int) []byte {
	b := make([]byte, n)

	switch kind {
	case 1:
		for i := range b {
			b[i] = 0xff
		}
	case 2:
		for i := range b {
			b[i] = byte(i*7 + 1)
		}
	}

	return b
}

// msgLengths / dstLengths are chosen around SHA-256 block and padding boundaries (given the 64-byte Z_pad) and
// around the 255-byte DST limit.
var (
	msgLengths = []int{31, 32, 33, 55, 56, 63, 64, 65, 119, 120, 127, 128, 129, 255, 256, 1000}
	dstLengths = []int{2, 15, 16, 17, 31, 32, 33, 54, 55, 56, 63, 64, 65, 127, 128, 254, 255, 256, 257, 300, 511, 512, 1000}
)

// hugeLengths: around 2^16, 2*2^16, 3*2^16 (+ the values whose low 16 bits are <= 255), and 2^20.
var hugeLengths = []int{65535, 65536, 65537, 65791, 65792, 131071, 131072, 131073, 196650, 1 << 20}

// shortMsgs returns nil, the empty non-nil message and every message of length 1 (and 2 when two is set).
func shortMsgs(two bool) [][]byte {
	out := [][]byte{nil, {}}

	for a := 0; a < 256; a++ {
		out = append(out, []byte{byte(a)})
	}

	if two {
		for a := 0; a < 256; a++ {
			for b := 0; b < 256; b++ {
				out = append(out, []byte{byte(a), byte(b)})
			}
		}
	}

	return out
}

func oneByteDSTs() [][]byte {
	var out [][]byte
	for a := 0; a < 256; a++ {
		out = append(out, []byte{byte(a)})
	}

	return out
}

// longMsgs / longDSTs: the length alphabets x three fills (+ the RFC's QUUX tags for DSTs).
func longMsgs() [][]byte {
	var out [][]byte

	for _, l := range msgLengths {
		for k := 0; k < 3; k++ {
			out = append(out, fill(l, k))
		}
	}

	return out
}

func longDSTs() [][]byte {
	out := [][]byte{
		[]byte("QUUX-V01-CS02-with-secp256k1_XMD:SHA-256_SSWU_RO_"),
		[]byte("QUUX-V01-CS02-with-secp256k1_XMD:SHA-256_SSWU_NU_"),
	}

	for _, l := range dstLengths {
		for k := 0; k < 3; k++ {
			out = append(out, fill(l, k))
		}
	}
	// a DST that ends in the byte that would be its own length suffix, and the oversize prefix itself as DST
	out = append(out, append(bytes.Repeat([]byte{'a'}, 15), 16), []byte("H2C-OVERSIZE-DST-"))

	return out
}

type hashPair struct{ msg, dst []byte }

// hashPairs builds the (msg, DST) product of DESIGN.md 3.3 for the given size class:
// 0: reduced quick product, 1: full short product, 2: thorough (messages of length <= 2 x 64 DSTs added).
func hashPairs(size int) []hashPair {
	var out []hashPair

	msgs, dsts := shortMsgs(false), oneByteDSTs()

	for mi, m := range msgs {
		for di, d := range dsts {
			if size == 0 && mi >= 34 && di%8 != 1 {
				continue
			}

			out = append(out, hashPair{m, d})
		}
	}

	lm, ld := longMsgs(), longDSTs()
	lm = append(lm, nil, []byte{}, []byte("abc"))

	for _, m := range lm {
		for _, d := range ld {
			out = append(out, hashPair{m, d})
		}
	}

	for _, d := range ld {
		for _, m := range msgs[:40] {
			out = append(out, hashPair{m, d})
		}
	}

	// very long inputs: lengths around multiples of 2^16 (a length carried in a 16-bit variable wraps there), 2^20
	for _, l := range hugeLengths {
		for _, m := range [][]byte{nil, []byte("abc")} {
			out = append(out, hashPair{m, fill(l, 2)})
		}

		for _, d := range [][]byte{[]byte("QUUX-V01-CS02-with-secp256k1_XMD:SHA-256_SSWU_RO_"), fill(300, 2)} {
			out = append(out, hashPair{fill(l, 2), d})
		}
	}

	if size >= 2 {
		two := shortMsgs(true)[258:]
		for _, m := range two {
			for di := 0; di < 256; di += 4 {
				out = append(out, hashPair{m, dsts[di]})
			}
		}
	}

	_ = ev.Seed

	return out
}

func dstClass(d []byte) string {
	switch {
	case len(d) < 255:
		return "dst<255"
	case len(d) == 255:
		return "dst=255"
	case len(d) == 256:
		return "dst=256"
	}

	return "dst>256"
}
