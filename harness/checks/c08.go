package checks

import (
	"bytes"
	"fmt"
	"strings"

	secp256k1 "github.com/bytemare/secp256k1"
	"github.com/bytemare/secp256k1/internal/verif/ev"
	"github.com/bytemare/secp256k1/internal/verif/ref"
)

const errZeroDST = "zero-length DST"

type hashFn struct {
	name string
	f    func(msg, dst []byte) *secp256k1.Element
	or   func(msg, dst []byte) ref.Pt
	n    int // number of field elements
}

var hashFns = []hashFn{
	{"HashToGroup", secp256k1.HashToGroup, ref.HashToCurve, 2},
	{"EncodeToGroup", secp256k1.EncodeToGroup, ref.EncodeToCurve, 1},
}

func c08Case(fi int, msg, dst []byte) (key, detail string) {
	h := hashFns[fi]
	m, d := cloneBytes(msg), cloneBytes(dst)
	desc := fmt.Sprintf("msg=%x (len %d, nil=%v) dst=%x (len %d)", trunc(msg), len(msg), msg == nil, trunc(dst), len(dst))

	var e *secp256k1.Element

	if p := catchStr(func() { e = h.f(m, d) }); p != "" {
		return h.name + "/panic", desc + ": " + p
	}

	want := h.or(msg, dst)

	if ok, why := elementIs(e, want); !ok {
		return h.name + "/differs-from-RFC9380/" + dstClass(dst), desc + ": " + why
	}

	e2 := h.f(m, d)
	if !bytes.Equal(e2.Encode(), e.Encode()) {
		return h.name + "/not-deterministic", desc
	}

	if !bytes.Equal(m, msg) || !bytes.Equal(d, dst) {
		return h.name + "/input-modified", desc
	}

	// the same call with message and DST as adjacent windows of ONE caller buffer (frame[:n], frame[n:]), so that
	// the message's spare capacity IS the DST: a natural way to hold a parsed request
	if len(msg)+len(dst) <= 2048 {
		frame := make([]byte, len(msg)+len(dst), len(msg)+len(dst)+8)
		copy(frame, msg)
		copy(frame[len(msg):], dst)
		snap := append([]byte{}, frame...)

		var e3 *secp256k1.Element

		if p := catchStr(func() { e3 = h.f(frame[:len(msg)], frame[len(msg):]) }); p != "" {
			return h.name + "/panic", desc + " (adjacent windows): " + p
		}

		if !bytes.Equal(e3.Encode(), ref.Enc(want)) {
			return h.name + "/differs-from-RFC9380/msg-and-DST-adjacent-in-one-buffer", desc
		}

		if !bytes.Equal(frame, snap) {
			return h.name + "/input-modified/msg-and-DST-adjacent-in-one-buffer", desc
		}
	}

	return "", ""
}

func c08EmptyDST(fi int, msg []byte, dst []byte) (key, detail string) {
	h := hashFns[fi]
	returned := false

	p := catchStr(func() {
		h.f(msg, dst)
		returned = true
	})

	if returned {
		return h.name + "/empty-DST-did-not-panic", fmt.Sprintf("msg=%x dst nil=%v", trunc(msg), dst == nil)
	}

	if !strings.Contains(p, errZeroDST) {
		return h.name + "/empty-DST-wrong-panic", p
	}

	return "", ""
}

func c08Expander(msg, dst []byte, n int) (key, detail string) {
	var got []byte

	if !secp256k1.VerifHasExpandXMD {
		// this tree has no private expander of the known shape: observe it through HashToScalar, which reduces
		// exactly the 48-byte expansion (the 96-byte one is covered by the hash-to-curve cases)
		if n != 48 {
			return "", ""
		}

		var s *secp256k1.Scalar

		if p := catchStr(func() { s = secp256k1.HashToScalar(cloneBytes(msg), cloneBytes(dst)) }); p != "" {
			return "HashToScalar/panic", p
		}

		want := ref.Mod(ref.OS2IP(ref.ExpandXMD(msg, dst, 48)), ref.N)
		if ok, why := scalarIs(s, want); !ok {
			return "HashToScalar/differs-from-RFC9380/" + dstClass(dst), fmt.Sprintf("msg=%x dst=%x (len %d): %s", trunc(msg), trunc(dst), len(dst), why)
		}

		return "", ""
	}

	if p := catchStr(func() { got = secp256k1.VerifExpandXMD(cloneBytes(msg), cloneBytes(dst), uint(n)) }); p != "" {
		return "expandXMD/panic", p
	}

	if want := ref.ExpandXMD(msg, dst, n); !bytes.Equal(got, want) {
		return "expandXMD/differs-from-RFC9380/" + dstClass(dst), fmt.Sprintf("msg=%x dst=%x (len %d) len=%d: got %x want %x", trunc(msg), trunc(dst), len(dst), n, got, want)
	}

	return "", ""
}

func cloneBytes(b []byte) []byte {
	if b == nil {
		return nil
	}

	return append(make([]byte, 0, len(b)), b...)
}

func trunc(b []byte) []byte {
	if len(b) > 40 {
		return b[:40]
	}

	return b
}

// C08 checks HashToGroup / EncodeToGroup against the independent RFC 9380 implementation.
func C08(r *ev.Report) {
	size := 1
	if ev.Thorough() {
		size = 2
	}

	pairs := hashPairs(size)
	r.Rule("(msg, DST) product: nil, empty and every 1-byte message (thorough: every 2-byte message) x every 1-byte DST, plus length alphabets around SHA-256 block/padding boundaries and the 255-byte DST limit (254, 255, 256, 257, 300, 511, 512, 1000) x three fills; HashToGroup and EncodeToGroup against an independent RFC 9380 implementation (generic SSWU of 6.6.2, rational isogeny, hash_to_curve as the literal sum of two mapped points), the expander seam for lengths 48 and 96, determinism, panic on empty/nil DST; non-trivial = each pair (all are distinct inputs)")
	r.Bound("pairs", len(pairs))
	r.States.Add(int64(len(pairs)))

	r.ParFor(len(pairs), func(_, i int) {
		p := pairs[i]
		c := map[string]int64{dstClass(p.dst): 1}

		for fi := range hashFns {
			r.Transitions.Add(2)
			r.Evals.Add(1)
			r.Distinct.Add(1)

			if key, detail := c08Case(fi, p.msg, p.dst); key != "" {
				r.Violation(key, detail, Case{"op": "hash", "fn": fmt.Sprint(fi), "msg": hb(p.msg), "dst": hb(p.dst), "nilmsg": fmt.Sprint(p.msg == nil)})
			}
		}

		// branch classes of the oracle, for non-vacuity
		for j, u := range ref.HashToField(p.msg, p.dst, 2, ref.P) {
			_, info := ref.SSWU(u)
			c[fmt.Sprintf("u%d_gx1square=%v_flip=%v", j, info.Gx1Square, info.Flipped)]++
		}

		if i%16 == 0 || len(p.dst) > 200 {
			for _, n := range []int{48, 96} {
				r.Transitions.Add(1)
				r.Evals.Add(1)

				if key, detail := c08Expander(p.msg, p.dst, n); key != "" {
					r.Violation(key, detail, Case{"op": "expand", "msg": hb(p.msg), "dst": hb(p.dst), "len": fmt.Sprint(n)})
				}
			}
		}

		r.Merge(c)
	})

	// complete length product on the expander seam: every (message length, DST length) pair up to the bound, so
	// that an off-by-one at ANY internal buffer or block threshold is hit, not only at the thresholds we thought of
	maxLen := 520
	if ev.Thorough() {
		maxLen = 1100
	}

	big := fill(maxLen, 2)
	r.Bound("expander_length_product", fmt.Sprintf("msg 0..%d x DST 1..%d x output {48,96}", maxLen, maxLen))

	r.ParFor(maxLen+1, func(_, ml int) {
		for dl := 1; dl <= maxLen; dl++ {
			for _, n := range []int{48, 96} {
				if key, detail := c08Expander(big[:ml], big[maxLen-dl:], n); key != "" {
					r.Violation(key, detail, Case{"op": "expand", "msg": hb(big[:ml]), "dst": hb(big[maxLen-dl:]), "len": fmt.Sprint(n)})
				}
			}
		}

		r.Transitions.Add(int64(2 * maxLen))
		r.Evals.Add(int64(2 * maxLen))
		r.States.Add(int64(maxLen))
		r.Distinct.Add(int64(maxLen))
	})

	// the full functions along lines of that product
	var lines []hashPair

	for ml := 0; ml <= maxLen; ml++ {
		for _, dl := range []int{1, 16, 49, 64, 255, 256, 300} {
			lines = append(lines, hashPair{big[:ml], big[maxLen-dl:]})
		}
	}

	for dl := 1; dl <= maxLen; dl++ {
		for _, ml := range []int{0, 1, 64} {
			lines = append(lines, hashPair{big[:ml], big[maxLen-dl:]})
		}
	}

	r.Bound("length_lines", len(lines))

	r.ParFor(len(lines), func(_, i int) {
		for fi := range hashFns {
			r.Transitions.Add(2)
			r.Evals.Add(1)

			if key, detail := c08Case(fi, lines[i].msg, lines[i].dst); key != "" {
				r.Violation(key, detail, Case{"op": "hash", "fn": fmt.Sprint(fi), "msg": hb(lines[i].msg), "dst": hb(lines[i].dst), "nilmsg": "false"})
			}
		}

		r.States.Add(1)
		r.Distinct.Add(1)
	})

	msgs := append(shortMsgs(false)[:20], longMsgs()[:6]...)
	for _, m := range msgs {
		for fi := range hashFns {
			for _, d := range [][]byte{nil, {}} {
				r.Transitions.Add(1)
				r.Evals.Add(1)
				r.Count("empty_dst_calls", 1)

				if key, detail := c08EmptyDST(fi, m, d); key != "" {
					r.Violation(key, detail, Case{"op": "emptydst", "fn": fmt.Sprint(fi), "msg": hb(m), "nildst": fmt.Sprint(d == nil)})
				}
			}
		}
	}

	r.Sample(Case{"op": "hash", "fn": "0", "msg": hb([]byte("abc")), "dst": hb([]byte("QUUX-V01-CS02-with-secp256k1_XMD:SHA-256_SSWU_RO_"))})
	r.Sample(Case{"op": "hash", "fn": "1", "msg": "", "dst": hb(fill(256, 2))})

	need := []string{"dst<255", "dst=255", "dst=256", "dst>256", "empty_dst_calls"}
	for j := 0; j < 2; j++ {
		for _, sq := range []bool{true, false} {
			for _, fl := range []bool{true, false} {
				need = append(need, fmt.Sprintf("u%d_gx1square=%v_flip=%v", j, sq, fl))
			}
		}
	}

	r.RequireNonVacuous(need...)
}

func init() {
	Parts["C08"] = Part{"C08", C08}
	// hash_to_curve is hash_to_field followed by the map; the (msg, DST) alphabet reaches a defective class of u
	// only by brute force over SHA-256, so the map sweep (direct u inputs, incl. the solved ones) runs as a seam
	// under C08 as well, like the field layer does
	Parts["C08map"] = Part{"C08", func(r *ev.Report) {
		c11Seam = true
		C11(r)
	}}
	Replayers["C08"] = func(c Case) (bool, string) {
		switch c["op"] {
		case "bin", "equals", "unary", "predicate", "neighbour", "sqrt", "parse", "wide", "Add", "Subtract", "Multiply", "Square", "Invert", "Pow", "SetUInt64", "persist":
			if c["op"] != "wide" || len(c["msg"]) == 0 {
				if f, ok := Replayers["C12"]; ok && c["op"] != "hash" {
					return f(c)
				}
			}
		}

		if c["op"] == "map" || c["op"] == "iso" {
			return Replayers["C11"](c)
		}

		var (
			key, detail string
			fi, n       int
		)

		fmt.Sscan(c["fn"], &fi)
		msg := unhb(c["msg"])

		if c["nilmsg"] == "true" {
			msg = nil
		}

		switch c["op"] {
		case "history":
			return histReplay(c)
		case "hash":
			key, detail = c08Case(fi, msg, unhb(c["dst"]))
		case "expand":
			fmt.Sscan(c["len"], &n)
			key, detail = c08Expander(msg, unhb(c["dst"]), n)
		case "emptydst":
			d := []byte{}
			if c["nildst"] == "true" {
				d = nil
			}

			key, detail = c08EmptyDST(fi, msg, d)
		}

		return key == "", key + " " + detail
	}
}
