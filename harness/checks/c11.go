package checks

import (
	"fmt"
	"math/big"

	secp256k1 "github.com/bytemare/secp256k1"
	"github.com/bytemare/secp256k1/internal/verif/alpha"
	"github.com/bytemare/secp256k1/internal/verif/ev"
	"github.com/bytemare/secp256k1/internal/verif/ref"
)

func rawAffine(e *secp256k1.Element) (x, y *big.Int, ok bool) {
	xr, yr, _ := secp256k1.VerifRaw(e)
	if !canonicalLimbs(xr, pLimbs) || !canonicalLimbs(yr, pLimbs) {
		return nil, nil, false
	}

	return ref.Unmont(xr, ref.P), ref.Unmont(yr, ref.P), true
}

// c11Case: SSWU(u) then the isogeny, both compared with the oracle.
func c11Case(u *big.Int) (key, detail string, info ref.SSWUInfo) {
	want, info := ref.SSWU(u)
	fu := feVal(u)
	uBefore := [4]uint64(fu.E)
	desc := fmt.Sprintf("u=%x", u)

	var q *secp256k1.Element

	if p := catchStr(func() { q = secp256k1.SSWU(fu) }); p != "" {
		return "SSWU/panic", desc + ": " + p, info
	}

	x, y, ok := rawAffine(q)
	if !ok {
		return "SSWU/non-canonical-coordinates", desc, info
	}

	class := "regular"
	if info.Exceptional {
		class = "exceptional"
	}

	got := ref.Pt{X: x, Y: y}

	if !ref.Iso.On(got) {
		return "SSWU/off-isogenous-curve/" + class, fmt.Sprintf("%s -> (%x,%x)", desc, x, y), info
	}

	if ref.Sgn0(y) != ref.Sgn0(u) {
		return "SSWU/sign-of-y-differs-from-sign-of-u/" + class, fmt.Sprintf("%s -> y=%x", desc, y), info
	}

	if !got.Eq(want) {
		return "SSWU/differs-from-RFC9380/" + class, fmt.Sprintf("%s -> (%x,%x) want (%x,%x)", desc, x, y, want.X, want.Y), info
	}

	if [4]uint64(fu.E) != uBefore {
		return "SSWU/input-changed", desc, info
	}

	var p *secp256k1.Element

	if pn := catchStr(func() { p = secp256k1.IsogenySecp256k13iso(q) }); pn != "" {
		return "Isogeny/panic", desc + ": " + pn, info
	}

	if ok, why := elementIs(p, ref.Iso3(want)); !ok {
		return "Isogeny/differs-from-RFC9380", desc + ": " + why, info
	}

	return "", "", info
}

// c11IsoCase: the isogeny alone on a point of E' injected raw.
func c11IsoCase(q ref.Pt) (key, detail string) {
	e := secp256k1.VerifSetRaw(secp256k1.VerifBlankElement(), ref.Mont(q.X, ref.P), ref.Mont(q.Y, ref.P), ref.Mont(big.NewInt(1), ref.P))
	desc := fmt.Sprintf("E' point (%x,%x)", q.X, q.Y)

	var p *secp256k1.Element

	if pn := catchStr(func() { p = secp256k1.IsogenySecp256k13iso(e) }); pn != "" {
		return "Isogeny/panic", desc + ": " + pn
	}

	want := ref.Iso3(q)
	if want.Inf {
		return "tool/kernel-point-in-alphabet", desc
	}

	if ok, why := elementIs(p, want); !ok {
		return "Isogeny/differs-from-RFC9380", desc + ": " + why
	}

	return "", ""
}

// c11SteeredUs returns inputs u for which a chosen *intermediate value* of the straight-line SSWU (u^2, Z u^2,
// tv1^2, tv1^2+tv1, that plus 1, B times that, -A(tv1^2+tv1) =: tv4, tv4^2, tv4^3) has Montgomery limbs at a carry
// boundary of a multiplication by a small constant K (just below and just above ceil(j*2^256/K)): the operand class
// a hand-written "multiply by a small constant" gets wrong. The intermediate is inverted algebraically (square
// roots, one cube root); about a quarter of the targets have a preimage, the first few per (site, K, j) are kept.
func c11SteeredUs() []*big.Int {
	f, z, a, b := ref.Fp, ref.SSWUZ, ref.Iso.A, ref.Iso.B
	two := big.NewInt(2)
	half := f.Inv0(two)
	bet := beta()

	fromTv1 := func(t *big.Int) []*big.Int { // Z u^2 = t
		if u := f.Sqrt(f.Mul(t, f.Inv0(z))); u != nil {
			return []*big.Int{u}
		}

		return nil
	}
	fromTv2 := func(v *big.Int) []*big.Int { // t^2 + t = v
		d := f.Sqrt(f.Add(big.NewInt(1), f.Mul(big.NewInt(4), v)))
		if d == nil {
			return nil
		}

		var out []*big.Int
		for _, r := range []*big.Int{d, f.Neg(d)} {
			out = append(out, fromTv1(f.Mul(f.Sub(r, big.NewInt(1)), half))...)
		}

		return out
	}
	fromTv4 := func(v *big.Int) []*big.Int { return fromTv2(f.Neg(f.Mul(v, f.Inv0(a)))) } // -A tv2 = v
	roots := func(v *big.Int, g func(*big.Int) []*big.Int) []*big.Int {
		r := f.Sqrt(v)
		if r == nil {
			return nil
		}

		return append(g(r), g(f.Neg(r))...)
	}

	sites := []func(*big.Int) []*big.Int{
		func(t *big.Int) []*big.Int { return fromTv1(f.Mul(t, z)) }, // u^2 = t
		fromTv1, // Z u^2 = t
		func(t *big.Int) []*big.Int { return roots(t, fromTv1) }, // tv1^2 = t
		fromTv2, // tv1^2 + tv1 = t
		func(t *big.Int) []*big.Int { return fromTv2(f.Sub(t, big.NewInt(1))) },                   // tv2 + 1 = t
		func(t *big.Int) []*big.Int { return fromTv2(f.Sub(f.Mul(t, f.Inv0(b)), big.NewInt(1))) }, // B (tv2 + 1) = t
		fromTv4, // tv4 = t
		func(t *big.Int) []*big.Int { return roots(t, fromTv4) }, // tv4^2 = t
		func(t *big.Int) []*big.Int { // tv4^3 = t
			c, ok := cubeRoot(t)
			if !ok {
				return nil
			}

			var out []*big.Int
			for i := 0; i < 3; i++ {
				out = append(out, fromTv4(c)...)
				c = f.Mul(c, bet)
			}

			return out
		},
	}

	var out []*big.Int

	for _, k := range []int64{1771, 11, 21, 3, 2} {
		js := map[int64]bool{}
		for _, j := range []int64{1, 2, 3, k / 2, k - 2, k - 1} {
			if j >= 1 && j <= k-1 {
				js[j] = true
			}
		}

		for j := range js {
			base := new(big.Int).Mul(big.NewInt(j), ref.Two256())
			base.Add(base, big.NewInt(k-1)).Div(base, big.NewInt(k)) // ceil(j*2^256/K)

			for _, site := range sites {
				for _, dir := range []int64{-1, 1} {
					found := 0

					for d := int64(0); d < 200 && found < 2; d++ {
						off := dir * (d + 1)
						if dir == 1 {
							off = d
						}

						pat := new(big.Int).Add(base, big.NewInt(off))
						if pat.Sign() <= 0 || pat.Cmp(ref.P) >= 0 {
							continue
						}

						us := site(ref.Unmont(ref.Limbs(pat), ref.P))
						if len(us) > 0 {
							found++
							out = append(out, us[0])
						}
					}
				}
			}
		}
	}

	return out
}

func c11Us(level int) []*big.Int {
	set := map[string]*big.Int{}
	add := func(v *big.Int) {
		v = ref.Mod(v, ref.P)
		set[v.Text(16)] = v
		n := ref.Fp.Neg(v)
		set[n.Text(16)] = n
	}

	add(big.NewInt(0))

	// the exceptional inputs: Z u^2 = -1, i.e. u = +-sqrt(-1/Z)
	if s := ref.Fp.Sqrt(ref.Fp.Neg(ref.Fp.Inv0(ref.SSWUZ))); s != nil {
		add(s)
	}

	w := int64(1 << 11)
	if level >= 1 {
		w = 1 << 17
	}

	for i := int64(1); i <= w; i++ {
		add(big.NewInt(i))
	}

	for _, s := range alpha.Strings256(ref.P, level+1) {
		add(s)
	}

	for _, v := range alpha.WithWitnesses(alpha.Values(ref.P, 2*level), ref.P) {
		add(v.V)
	}

	for _, v := range alpha.Fixed(256, "sswu") {
		add(v)
	}

	for _, v := range c11SteeredUs() {
		add(v)
	}

	for _, v := range ref.Vectors {
		for _, u := range v.U {
			x, _ := new(big.Int).SetString(u, 16)
			add(x)
		}
	}

	out := make([]*big.Int, 0, len(set))
	for _, v := range set {
		out = append(out, v)
	}

	return out
}

// c11Seam is set when the sweep runs as a seam part of C08 (see c12Seam).
var c11Seam bool

// C11 checks the simplified SWU map and the 3-isogeny.
func C11(r *ev.Report) {
	thorough := ev.Thorough() && !c11Seam

	level := 0
	if thorough {
		level = 1
	}

	us := c11Us(level)
	r.Rule("SSWU and IsogenySecp256k13iso called directly from the in-module harness on the u alphabet: 0 and +-sqrt(-1/Z) (the three exceptional inputs), 1..2^11 and p-2^11..p-1, limb products, V_p with the solved members, inputs solved so that an intermediate value of the map sits at a carry boundary of a multiplication by 1771, 11, 21, 3 or 2, the RFC vector u values, each with its negation; oracle = generic (non straight-line) SSWU of RFC 9380 6.6.2 and the rational isogeny map of appendix E.1 in math/big; plus the isogeny alone on the points of E' with x' = 0..2047 (both roots) injected raw; non-trivial = all (distinct field elements)")
	r.Bound("u_values", len(us))
	r.States.Add(int64(len(us)))

	r.ParFor(len(us), func(_, i int) {
		r.Transitions.Add(2)
		r.Evals.Add(1)
		r.Distinct.Add(1)

		key, detail, info := c11Case(us[i])
		r.Count(fmt.Sprintf("exceptional=%v", info.Exceptional), 1)
		r.Count(fmt.Sprintf("gx1square=%v_flip=%v", info.Gx1Square, info.Flipped), 1)

		if key != "" {
			r.Violation(key, detail, Case{"op": "map", "u": hx(us[i])})
		}
	})

	nx := 2048
	if thorough {
		nx = 1 << 16
	}
	r.ParFor(nx, func(_, i int) {
		x := big.NewInt(int64(i))
		rhs := ref.Iso.RHS(x)

		if !ref.Fp.IsSquare(rhs) {
			return
		}

		y := ref.Fp.Sqrt(rhs)

		for _, yy := range []*big.Int{y, ref.Fp.Neg(y)} {
			r.Transitions.Add(1)
			r.Evals.Add(1)
			r.States.Add(1)
			r.Count("isogeny_points", 1)

			if key, detail := c11IsoCase(ref.Pt{X: x, Y: yy}); key != "" {
				r.Violation(key, detail, Case{"op": "iso", "x": hx(x), "y": hx(yy)})
			}
		}
	})

	if r.Counter("exceptional=true") != 3 {
		r.ToolError("expected exactly 3 exceptional inputs in the alphabet, saw %d", r.Counter("exceptional=true"))
	}

	r.Sample(Case{"op": "map", "u": "0"})
	r.Sample(Case{"op": "map", "u": hx(us[len(us)/2])})
	r.RequireNonVacuous("gx1square=true_flip=true", "gx1square=true_flip=false", "gx1square=false_flip=true", "gx1square=false_flip=false", "isogeny_points")
}

func init() {
	Parts["C11"] = Part{"C11", C11}
	Replayers["C11"] = func(c Case) (bool, string) {
		switch c["op"] {
		case "bin", "equals", "unary", "predicate", "neighbour", "sqrt", "parse", "wide", "Add", "Subtract", "Multiply", "Square", "Invert", "Pow", "SetUInt64", "persist":
			if c["op"] != "wide" || len(c["msg"]) == 0 {
				if f, ok := Replayers["C12"]; ok && c["op"] != "hash" {
					return f(c)
				}
			}
		}

		var key, detail string

		if c["op"] == "iso" {
			key, detail = c11IsoCase(ref.Pt{X: unhx(c["x"]), Y: unhx(c["y"])})
		} else {
			key, detail, _ = c11Case(unhx(c["u"]))
		}

		return key == "", key + " " + detail
	}
}
