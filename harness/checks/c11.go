package checks

import (
	"fmt"
	"math/big"

	secp256k1 "github.com/bytemare/secp256k1"
	"github.com/bytemare/secp256k1/internal/verif/alpha"
	"github.com/bytemare/secp256k1/internal/verif/ev"
	"github.com/bytemare/secp256k1/internal/verif/ref"
)

func rawAffine(e *secp256k1.Element) (x, y *big.Int, ok bool) {
	xr, yr, _ := secp256k1.VerifRaw(e)
	if !canonicalLimbs(xr, pLimbs) || !canonicalLimbs(yr, pLimbs) {
		return nil, nil, false
	}

	return ref.Unmont(xr, ref.P), ref.Unmont(yr, ref.P), true
}

// c11Case: SSWU(u) then the isogeny, both compared with the oracle.
func c11Case(u *big.Int) (key, detail string, info ref.SSWUInfo) {
	want, info := ref.SSWU(u)
	fu := feVal(u)
	uBefore := [4]uint64(fu.E)
	desc := fmt.Sprintf("u=%x", u)

	var q *secp256k1.Element

	if p := catchStr(func() { q = secp256k1.SSWU(fu) }); p != "" {
		return "SSWU/panic", desc + ": " + p, info
	}

	x, y, ok := rawAffine(q)
	if !ok {
		return "SSWU/non-canonical-coordinates", desc, info
	}

	class := "regular"
	if info.Exceptional {
		class = "exceptional"
	}

	got := ref.Pt{X: x, Y: y}

	if !ref.Iso.On(got) {
		return "SSWU/off-isogenous-curve/" + class, fmt.Sprintf("%s -> (%x,%x)", desc, x, y), info
	}

	if ref.Sgn0(y) != ref.Sgn0(u) {
		return "SSWU/sign-of-y-differs-from-sign-of-u/" + class, fmt.Sprintf("%s -> y=%x", desc, y), info
	}

	if !got.Eq(want) {
		return "SSWU/differs-from-RFC9380/" + class, fmt.Sprintf("%s -> (%x,%x) want (%x,%x)", desc, x, y, want.X, want.Y), info
	}

	if [4]uint64(fu.E) != uBefore {
		return "SSWU/input-changed", desc, info
	}

	var p *secp256k1.Element

	if pn := catchStr(func() { p = secp256k1.IsogenySecp256k13iso(q) }); pn != "" {
		return "Isogeny/panic", desc + ": " + pn, info
	}

	if ok, why := elementIs(p, ref.Iso3(want)); !ok {
		return "Isogeny/differs-from-RFC9380", desc + ": " + why, info
	}

	return "", "", info
}

// c11IsoCase: the isogeny alone on a point of E' injected raw.
func c11IsoCase(q ref.Pt) (key, detail string) {
	e := secp256k1.VerifSetRaw(secp256k1.VerifBlankElement(), ref.Mont(q.X, ref.P), ref.Mont(q.Y, ref.P), ref.Mont(big.NewInt(1), ref.P))
	desc := fmt.Sprintf("E' point (%x,%x)", q.X, q.Y)

	var p *secp256k1.Element

	if pn := catchStr(func() { p = secp256k1.IsogenySecp256k13iso(e) }); pn != "" {
		return "Isogeny/panic", desc + ": " + pn
	}

	want := ref.Iso3(q)
	if want.Inf {
		return "tool/kernel-point-in-alphabet", desc
	}

	if ok, why := elementIs(p, want); !ok {
		return "Isogeny/differs-from-RFC9380", desc + ": " + why
	}

	return "", ""
}

func c11Us(level int) []*big.Int {
	set := map[string]*big.Int{}
	add := func(v *big.Int) {
		v = ref.Mod(v, ref.P)
		set[v.Text(16)] = v
		n := ref.Fp.Neg(v)
		set[n.Text(16)] = n
	}

	add(big.NewInt(0))

	// the exceptional inputs: Z u^2 = -1, i.e. u = +-sqrt(-1/Z)
	if s := ref.Fp.Sqrt(ref.Fp.Neg(ref.Fp.Inv0(ref.SSWUZ))); s != nil {
		add(s)
	}

	w := int64(1 << 11)
	if level >= 1 {
		w = 1 << 17
	}

	for i := int64(1); i <= w; i++ {
		add(big.NewInt(i))
	}

	for _, s := range alpha.Strings256(ref.P, level+1) {
		add(s)
	}

	for _, v := range alpha.Values(ref.P, 2*level) {
		add(v.V)
	}

	for _, v := range alpha.Fixed(256, "sswu") {
		add(v)
	}

	for _, v := range ref.Vectors {
		for _, u := range v.U {
			x, _ := new(big.Int).SetString(u, 16)
			add(x)
		}
	}

	out := make([]*big.Int, 0, len(set))
	for _, v := range set {
		out = append(out, v)
	}

	return out
}

// C11 checks the simplified SWU map and the 3-isogeny.
func C11(r *ev.Report) {
	level := 0
	if ev.Thorough() {
		level = 1
	}

	us := c11Us(level)
	r.Rule("SSWU and IsogenySecp256k13iso called directly from the in-module harness on the u alphabet: 0 and +-sqrt(-1/Z) (the three exceptional inputs), 1..2^11 and p-2^11..p-1, limb products, V_p, the RFC vector u values, each with its negation; oracle = generic (non straight-line) SSWU of RFC 9380 6.6.2 and the rational isogeny map of appendix E.1 in math/big; plus the isogeny alone on the points of E' with x' = 0..2047 (both roots) injected raw; non-trivial = all (distinct field elements)")
	r.Bound("u_values", len(us))
	r.States.Add(int64(len(us)))

	r.ParFor(len(us), func(_, i int) {
		r.Transitions.Add(2)
		r.Evals.Add(1)
		r.Distinct.Add(1)

		key, detail, info := c11Case(us[i])
		r.Count(fmt.Sprintf("exceptional=%v", info.Exceptional), 1)
		r.Count(fmt.Sprintf("gx1square=%v_flip=%v", info.Gx1Square, info.Flipped), 1)

		if key != "" {
			r.Violation(key, detail, Case{"op": "map", "u": hx(us[i])})
		}
	})

	nx := 2048
	if ev.Thorough() {
		nx = 1 << 16
	}
	r.ParFor(nx, func(_, i int) {
		x := big.NewInt(int64(i))
		rhs := ref.Iso.RHS(x)

		if !ref.Fp.IsSquare(rhs) {
			return
		}

		y := ref.Fp.Sqrt(rhs)

		for _, yy := range []*big.Int{y, ref.Fp.Neg(y)} {
			r.Transitions.Add(1)
			r.Evals.Add(1)
			r.States.Add(1)
			r.Count("isogeny_points", 1)

			if key, detail := c11IsoCase(ref.Pt{X: x, Y: yy}); key != "" {
				r.Violation(key, detail, Case{"op": "iso", "x": hx(x), "y": hx(yy)})
			}
		}
	})

	if r.Counter("exceptional=true") != 3 {
		r.ToolError("expected exactly 3 exceptional inputs in the alphabet, saw %d", r.Counter("exceptional=true"))
	}

	r.Sample(Case{"op": "map", "u": "0"})
	r.Sample(Case{"op": "map", "u": hx(us[len(us)/2])})
	r.RequireNonVacuous("gx1square=true_flip=true", "gx1square=true_flip=false", "gx1square=false_flip=true", "gx1square=false_flip=false", "isogeny_points")
}

func init() {
	Parts["C11"] = Part{"C11", C11}
	Replayers["C11"] = func(c Case) (bool, string) {
		switch c["op"] {
		case "bin", "equals", "unary", "predicate", "neighbour", "sqrt", "parse", "wide", "Add", "Subtract", "Multiply", "Square", "Invert", "Pow", "SetUInt64", "persist":
			if c["op"] != "wide" || len(c["msg"]) == 0 {
				if f, ok := Replayers["C12"]; ok && c["op"] != "hash" {
					return f(c)
				}
			}
		}

		var key, detail string

		if c["op"] == "iso" {
			key, detail = c11IsoCase(ref.Pt{X: unhx(c["x"]), Y: unhx(c["y"])})
		} else {
			key, detail, _ = c11Case(unhx(c["u"]))
		}

		return key == "", key + " " + detail
	}
}
