package checks

import (
	"fmt"
	"os"
	"os/exec"
	"path/filepath"
	"strings"

	"github.com/bytemare/secp256k1/internal/verif/ev"
	"github.com/bytemare/secp256k1/internal/verif/ref"
)

// link sets: what the importing program links besides the package under test. The property depends on the rest
// of the program only through the standard library's hash registry: either something registers SHA-256 or
// nothing does. Registration is monotone in the link set, so the minimal program is the worst case.
var c17Programs = []struct {
	name    string
	imports []string
	class   string
	// custom: the program registers its own SHA-256 (a wrapper exposing nothing but the hash.Hash methods) with
	// crypto.RegisterHash - "after": in main's init, i.e. after the library's init; "before": in a helper package
	// that is initialised before the library.
	custom string
}{
	{"imports-nothing-else", nil, "nobody else registers SHA-256", ""},
	{"imports-crypto-only", []string{"crypto"}, "nobody else registers SHA-256", ""},
	{"imports-sha512", []string{"crypto/sha512"}, "nobody else registers SHA-256", ""},
	{"imports-md5-crc32", []string{"crypto/md5", "hash/crc32"}, "nobody else registers SHA-256", ""},
	{"imports-sha256", []string{"crypto/sha256"}, "someone else registers SHA-256", ""},
	{"registers-minimal-sha256-after-library-init", nil, "the program registers its own SHA-256", "after"},
	{"registers-minimal-sha256-before-library-init", nil, "the program registers its own SHA-256", "before"},
}

// The program's own SHA-256: correct, implements hash.Hash and nothing else (no marshalling, no io.ByteWriter...),
// and uses every freedom the hash.Hash contract leaves: Sum returns a freshly allocated slice (with spare capacity) instead of
// appending in place, Write consumes its input in two pieces.
const c17Wrapper = `
type onlyHash struct{ h hash.Hash }

func (o onlyHash) Write(p []byte) (int, error) {
	k := len(p) / 2
	o.h.Write(p[:k])
	o.h.Write(p[k:])

	return len(p), nil
}

func (o onlyHash) Sum(b []byte) []byte {
	d := o.h.Sum(nil)
	out := make([]byte, 0, len(b)+len(d)+128) // fresh AND with spare capacity: both are allowed by the contract
	out = append(out, b...)

	return append(out, d...)
}

func (o onlyHash) Reset()         { o.h.Reset() }
func (o onlyHash) Size() int      { return o.h.Size() }
func (o onlyHash) BlockSize() int { return o.h.BlockSize() }

func register() {
	crypto.RegisterHash(crypto.SHA256, func() hash.Hash { return onlyHash{sha256.New()} })
}
`

var c17Inputs = [][2]string{
	{"", "QUUX-V01-CS02-with-secp256k1_XMD:SHA-256_SSWU_RO_"},
	{"abcdef0123456789", "VERIF-C17-dst"},
	// DSTs beyond 255 bytes take the oversize path, which hashes once more
	{"abc", strings.Repeat("oversize-DST-", 20)},
	{"", strings.Repeat("x", 256)},
}

func c17Source(imports []string, custom string) string {
	var b strings.Builder

	b.WriteString("package main\n\nimport (\n\t\"encoding/hex\"\n\t\"fmt\"\n")

	for _, i := range imports {
		fmt.Fprintf(&b, "\t_ %q\n", i)
	}

	switch custom {
	case "after":
		b.WriteString("\t\"crypto\"\n\t\"crypto/sha256\"\n\t\"hash\"\n")
	case "before":
		b.WriteString("\t_ \"verifprog/aaareg\"\n")
	}

	b.WriteString("\n\tsecp256k1 \"github.com/bytemare/secp256k1\"\n)\n")

	if custom == "after" {
		b.WriteString(c17Wrapper + "\nfunc init() { register() }\n")
	}

	b.WriteString("\nfunc main() {\n")

	for _, in := range c17Inputs {
		fmt.Fprintf(&b, "\tfmt.Println(hex.EncodeToString(secp256k1.HashToGroup([]byte(%q), []byte(%q)).Encode()))\n", in[0], in[1])
		fmt.Fprintf(&b, "\tfmt.Println(hex.EncodeToString(secp256k1.EncodeToGroup([]byte(%q), []byte(%q)).Encode()))\n", in[0], in[1])
		fmt.Fprintf(&b, "\tfmt.Println(hex.EncodeToString(secp256k1.HashToScalar([]byte(%q), []byte(%q)).Encode()))\n", in[0], in[1])
	}

	b.WriteString("}\n")

	return b.String()
}

func c17Expected() string {
	var b strings.Builder

	for _, in := range c17Inputs {
		m, d := []byte(in[0]), []byte(in[1])
		fmt.Fprintf(&b, "%x\n%x\n%x\n", ref.Enc(ref.HashToCurve(m, d)), ref.Enc(ref.EncodeToCurve(m, d)), ref.Bytes32(ref.HashToScalar(m, d)))
	}

	return b.String()
}

// c17Case builds and runs one plain (non-test) program that imports the package from the tree under test.
func c17Case(i int, work, src string) (key, detail string) {
	p := c17Programs[i]
	dir := filepath.Join(work, "c17-"+p.name)

	if err := os.MkdirAll(dir, 0o755); err != nil {
		return "tool", err.Error()
	}

	defer os.RemoveAll(dir)

	gomod := fmt.Sprintf("module verifprog\n\ngo 1.22\n\nrequire github.com/bytemare/secp256k1 v0.0.0\n\nreplace github.com/bytemare/secp256k1 => %s\n", src)
	if err := os.WriteFile(filepath.Join(dir, "go.mod"), []byte(gomod), 0o644); err != nil {
		return "tool", err.Error()
	}

	if err := os.WriteFile(filepath.Join(dir, "main.go"), []byte(c17Source(p.imports, p.custom)), 0o644); err != nil {
		return "tool", err.Error()
	}

	if p.custom == "before" {
		// a package with no dependency on the library, imported first: its init runs before the library's
		if err := os.MkdirAll(filepath.Join(dir, "aaareg"), 0o755); err != nil {
			return "tool", err.Error()
		}

		src := "package aaareg\n\nimport (\n\t\"crypto\"\n\t\"crypto/sha256\"\n\t\"hash\"\n)\n" + c17Wrapper + "\nfunc init() { register() }\n"
		if err := os.WriteFile(filepath.Join(dir, "aaareg", "reg.go"), []byte(src), 0o644); err != nil {
			return "tool", err.Error()
		}
	}

	build := exec.Command("go", "build", "-o", "prog", ".")
	build.Dir = dir

	if out, err := build.CombinedOutput(); err != nil {
		return "tool", fmt.Sprintf("go build failed for %s: %v\n%s", p.name, err, out)
	}

	run := exec.Command(filepath.Join(dir, "prog"))
	out, err := run.CombinedOutput()

	if err != nil {
		first := strings.SplitN(string(out), "\n", 2)[0]
		return "hashing-fails-in-program/" + strings.ReplaceAll(p.class, " ", "-"),
			fmt.Sprintf("program %s (extra imports %v): %v: %s", p.name, p.imports, err, first)
	}

	if string(out) != c17Expected() {
		return "hashing-gives-wrong-result-in-program", fmt.Sprintf("program %s: got %q want %q", p.name, out, c17Expected())
	}

	return "", ""
}

// c17BuildConfigs: the link set of the library itself must contain crypto/sha256 in every build configuration, not
// only the host's default one (a file guarded by a GOARCH or `purego` constraint could be the only importer).
var (
	c17Arches = []string{"amd64", "arm64", "386", "arm", "riscv64", "ppc64le", "s390x", "mips64", "wasm"}
	c17Tags   = []string{"", "purego", "noasm", "appengine"}
)

// c17DepsCase asks the go tool for the dependency closure of the minimal program in one build configuration.
func c17DepsCase(dir, goarch, tags string) (key, detail string) {
	return c17DepsCaseWith("go", dir, goarch, tags)
}

// c17DepsCaseWith is c17DepsCase with a named go command: a second, newer toolchain evaluates `//go:build go1.N`
// constraints differently (a file guarded by a release tag could be the only importer of SHA-256).
func c17DepsCaseWith(gocmd, dir, goarch, tags string) (key, detail string) {
	args := []string{"list", "-deps"}
	if tags != "" {
		args = append(args, "-tags", tags)
	}

	args = append(args, ".")
	cmd := exec.Command(gocmd, args...)
	cmd.Dir = dir
	cmd.Env = append(os.Environ(), "GOARCH="+goarch, "CGO_ENABLED=0", "GOTOOLCHAIN=local")

	if goarch == "wasm" {
		cmd.Env = append(cmd.Env, "GOOS=js")
	}

	out, err := cmd.CombinedOutput()
	if err != nil {
		return "tool", fmt.Sprintf("%s list -deps failed for GOARCH=%s tags=%q: %v\n%s", gocmd, goarch, tags, err, out)
	}

	for _, l := range strings.Split(string(out), "\n") {
		if strings.TrimSpace(l) == "crypto/sha256" {
			return "", ""
		}
	}

	return "library-does-not-link-SHA-256-in-some-build-configuration", fmt.Sprintf("%s GOARCH=%s tags=%q: crypto/sha256 is not in the dependency closure of a program that imports only the package", gocmd, goarch, tags)
}

// C17 builds plain binaries with different link sets and runs the three hashing functions in each.
func C17(r *ev.Report) {
	work := os.Getenv("VERIF_WORK")
	if work == "" {
		work = os.TempDir()
	}

	src := os.Getenv("VERIF_SRC")
	if src == "" {
		src = os.Getenv("VERIF_REPO")
	}

	if src == "" {
		src = "/repo"
	}

	r.Rule("plain (non-test) binaries built in an external module that requires the package through a replace directive, one per configuration of the rest of the program: link sets {}, {crypto}, {crypto/sha512}, {crypto/md5, hash/crc32}, {crypto/sha256}, and programs that register their own SHA-256 (a wrapper exposing only the hash.Hash methods) with crypto.RegisterHash before resp. after the library's initialisation; each calls HashToGroup, EncodeToGroup, HashToScalar on two inputs and must exit 0 with the oracle's bytes; additionally the dependency closure of the minimal program must contain crypto/sha256 in every build configuration of GOARCH {amd64, arm64, 386, arm, riscv64, ppc64le, s390x, mips64, wasm} x tags {none, purego, noasm, appengine}, the same closure under every newer Go toolchain found on PATH (go1.24..go1.26) for {amd64, 386, arm64} x {none, purego}, and the minimal program is built and run with -tags purego; 3-class abstraction of 'all programs' (SHA-256 registered by nobody else / by the standard library / by the program itself), the minimal program being the worst case of the first class because registration is monotone in the link set; non-trivial = programs other than the one that imports crypto/sha256 itself")
	r.Bound("programs", len(c17Programs))
	r.Bound("calls_per_program", 3*len(c17Inputs))

	// build configurations of the minimal program
	cfgDir := filepath.Join(work, "c17-buildconfigs")
	if err := os.MkdirAll(cfgDir, 0o755); err == nil {
		defer os.RemoveAll(cfgDir)

		gomod := fmt.Sprintf("module verifprog\n\ngo 1.22\n\nrequire github.com/bytemare/secp256k1 v0.0.0\n\nreplace github.com/bytemare/secp256k1 => %s\n", src)
		_ = os.WriteFile(filepath.Join(cfgDir, "go.mod"), []byte(gomod), 0o644)
		_ = os.WriteFile(filepath.Join(cfgDir, "main.go"), []byte(c17Source(nil, "")), 0o644)

		for _, arch := range c17Arches {
			for _, tags := range c17Tags {
				r.Evals.Add(1)
				r.Transitions.Add(1)
				r.States.Add(1)
				r.Distinct.Add(1)
				r.Count("build_configurations", 1)

				key, detail := c17DepsCase(cfgDir, arch, tags)
				if key == "tool" {
					r.Note("%s", detail)
					continue
				}

				if key != "" {
					r.Violation(key, detail, Case{"op": "buildconfig", "goarch": arch, "tags": tags})
				}
			}
		}

		// the same closure under every newer Go toolchain installed next to the default one (release-tag constraints)
		for _, gocmd := range []string{"go1.26", "go1.25", "go1.24"} {
			if _, err := exec.LookPath(gocmd); err != nil {
				continue
			}

			for _, arch := range []string{"amd64", "386", "arm64"} {
				for _, tags := range []string{"", "purego"} {
					r.Evals.Add(1)
					r.Transitions.Add(1)
					r.States.Add(1)
					r.Count("build_configurations_newer_toolchain", 1)

					key, detail := c17DepsCaseWith(gocmd, cfgDir, arch, tags)
					if key == "tool" {
						r.Note("%s", detail)
						continue
					}

					if key != "" {
						r.Violation(key, detail, Case{"op": "buildconfig", "goarch": arch, "tags": tags, "go": gocmd})
					}
				}
			}
		}

		// and the minimal program actually run with the pure-Go tag
		if key, detail := c17TaggedRun(cfgDir, "purego"); key != "" && key != "tool" {
			r.Violation(key, detail, Case{"op": "taggedrun", "tags": "purego"})
		}
	}

	for i, p := range c17Programs {
		r.Evals.Add(int64(3 * len(c17Inputs)))
		r.Transitions.Add(int64(3 * len(c17Inputs)))
		r.States.Add(1)

		if p.class != "someone else registers SHA-256" {
			r.Distinct.Add(1)
		}

		key, detail := c17Case(i, work, src)
		if key == "tool" {
			r.ToolError("%s", detail)
			return
		}

		if key != "" {
			r.Violation(key, detail, Case{"op": "program", "i": fmt.Sprint(i), "name": p.name})
		}

		r.Sample(Case{"op": "program", "i": fmt.Sprint(i), "name": p.name, "imports": strings.Join(p.imports, ",")})
	}
}

// c17TaggedRun builds the minimal program with build tags and runs it.
func c17TaggedRun(dir, tags string) (key, detail string) {
	build := exec.Command("go", "build", "-tags", tags, "-o", "prog-"+tags, ".")
	build.Dir = dir

	if out, err := build.CombinedOutput(); err != nil {
		return "tool", fmt.Sprintf("go build -tags %s failed: %v\n%s", tags, err, out)
	}

	out, err := exec.Command(filepath.Join(dir, "prog-"+tags)).CombinedOutput()
	if err != nil {
		return "hashing-fails-in-program/built-with-tags-" + tags, fmt.Sprintf("%v: %s", err, strings.SplitN(string(out), "\n", 2)[0])
	}

	if string(out) != c17Expected() {
		return "hashing-gives-wrong-result-in-program/built-with-tags-" + tags, string(out)
	}

	return "", ""
}

func init() {
	Parts["C17"] = Part{"C17", C17}
	Replayers["C17"] = func(c Case) (bool, string) {
		var i int
		fmt.Sscan(c["i"], &i)

		src := os.Getenv("VERIF_SRC")
		if src == "" {
			src = "/repo"
		}

		if c["op"] == "buildconfig" || c["op"] == "taggedrun" {
			dir, err := os.MkdirTemp("", "c17-replay-")
			if err != nil {
				return false, err.Error()
			}

			defer os.RemoveAll(dir)

			gomod := fmt.Sprintf("module verifprog\n\ngo 1.22\n\nrequire github.com/bytemare/secp256k1 v0.0.0\n\nreplace github.com/bytemare/secp256k1 => %s\n", src)
			_ = os.WriteFile(filepath.Join(dir, "go.mod"), []byte(gomod), 0o644)
			_ = os.WriteFile(filepath.Join(dir, "main.go"), []byte(c17Source(nil, "")), 0o644)

			var key, detail string
			if c["op"] == "buildconfig" {
				gocmd := c["go"]
				if gocmd == "" {
					gocmd = "go"
				}

				key, detail = c17DepsCaseWith(gocmd, dir, c["goarch"], c["tags"])
			} else {
				key, detail = c17TaggedRun(dir, c["tags"])
			}

			return key == "", key + " " + detail
		}

		key, detail := c17Case(i, os.TempDir(), src)

		return key == "", key + " " + detail
	}
}
