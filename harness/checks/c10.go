package checks

import (
	"bytes"
	"crypto/sha256"
	"encoding/binary"
	"fmt"
	"math/big"
	"sync"

	secp256k1 "github.com/bytemare/secp256k1"
	"github.com/bytemare/secp256k1/internal/verif/ev"
	"github.com/bytemare/secp256k1/internal/verif/prelude"
	"github.com/bytemare/secp256k1/internal/verif/ref"
)

// C10 on the real curve: breadth-first search over histories of API calls on a pool of two element and two scalar
// variables, with de-duplication on the CONCRETE state (raw limbs of every variable), never on the abstract value:
// two histories that reach the same group element through different Z are different states, because
// representation-sensitivity is exactly the defect class hunted.

const (
	c10E = 2 // element variables
	c10S = 2 // scalar variables
)

type c10State struct {
	e [c10E]raw3
	s [c10S][4]uint64
}

type c10Model struct {
	e [c10E]ref.Pt
	s [c10S]*big.Int
}

// key returns a 128-bit digest of the concrete state (raw limbs of every variable).
func (st *c10State) key() [16]byte {
	var (
		b   bytes.Buffer
		out [16]byte
	)

	for i := range st.e {
		for _, l := range [][4]uint64{st.e[i].x, st.e[i].y, st.e[i].z} {
			for _, w := range l {
				binary.Write(&b, binary.LittleEndian, w)
			}
		}
	}

	for i := range st.s {
		for _, w := range st.s[i] {
			binary.Write(&b, binary.LittleEndian, w)
		}
	}

	h := sha256.Sum256(b.Bytes())
	copy(out[:], h[:16])

	return out
}

type c10Op struct {
	name string
	elem bool // receiver is an element variable
	i, j int  // receiver, argument (j may equal i: same variable)
	k    int  // scalar argument index for Multiply
}

func (o c10Op) String() string {
	kind := "s"
	if o.elem {
		kind = "e"
	}

	return fmt.Sprintf("%s%d.%s(arg=%d,k=%d)", kind, o.i, o.name, o.j, o.k)
}

var (
	c10Msg = []byte("verif C10 message")
	c10DST = []byte("VERIF-V01-CS02-with-secp256k1_XMD:SHA-256_SSWU_RO_")
)

func c10Ops() []c10Op {
	var ops []c10Op

	for i := 0; i < c10E; i++ {
		for _, n := range []string{"Double", "Negate", "Identity", "Base", "Add(nil)", "Subtract(nil)", "Multiply(nil)", "=HashToGroup", "=EncodeToGroup", "=HashToGroup(longDST)", "=NewElement"} {
			ops = append(ops, c10Op{name: n, elem: true, i: i, j: i})
		}

		for j := 0; j < c10E; j++ {
			for _, n := range []string{"Set", "Add", "Subtract", "=Copy", "Decode(Encode)", "Decode(EncodeUncompressed)", "DecodeHex(Hex)", "UnmarshalBinary(MarshalBinary)",
				"DecodeCompressed(Encode)", "DecodeUncompressed(EncodeUncompressed)", "DecodeCoordinates(affine)"} {
				ops = append(ops, c10Op{name: n, elem: true, i: i, j: j})
			}
		}

		for k := 0; k < c10S; k++ {
			ops = append(ops, c10Op{name: "Multiply", elem: true, i: i, j: i, k: k})
		}

		// the receiver is first reset to the Go zero value of the struct (0:0:0 - not a group element, but what
		// `var e Element` is) and then overwritten by a call that does not read it
		for _, n := range []string{"zero;Identity", "zero;Base", "zero;Multiply(nil)", "zero;Decode(00)"} {
			ops = append(ops, c10Op{name: n, elem: true, i: i, j: i})
		}

		for j := 0; j < c10E; j++ {
			if j != i {
				ops = append(ops, c10Op{name: "zero;Set", elem: true, i: i, j: j}, c10Op{name: "zero;Decode(Encode)", elem: true, i: i, j: j})
			}
		}

		for k := range c10BadElem() {
			ops = append(ops, c10Op{name: "Decode(invalid)", elem: true, i: i, j: i, k: k})
		}
	}

	for i := 0; i < c10S; i++ {
		for _, n := range []string{"Zero", "One", "MinusOne", "Random", "SetUInt64(3)", "SetSparse", "Square", "Invert", "Add(nil)", "Subtract(nil)", "Multiply(nil)", "Set(nil)", "=HashToScalar", "=HashToScalar(longDST)"} {
			ops = append(ops, c10Op{name: n, i: i, j: i})
		}

		for j := 0; j < c10S; j++ {
			for _, n := range []string{"Set", "Add", "Subtract", "Multiply", "Pow", "=Copy", "Decode(Encode)", "DecodeHex(Hex)", "UnmarshalBinary(MarshalBinary)", "CSelect(0,self,arg)", "CSelect(1,self,arg)"} {
				ops = append(ops, c10Op{name: n, i: i, j: j})
			}
		}

		ops = append(ops, c10Op{name: "CSelect(nil)", i: i, j: i})

		for k := range c10BadScalar() {
			ops = append(ops, c10Op{name: "Decode(invalid)", i: i, j: i, k: k})
		}
	}

	return ops
}

// c10RandomValue is what Random returns under the constant entropy stream 0x42 0x42 ... of the harness processes.
var c10RandomValue = ref.Mod(ref.OS2IP(bytes.Repeat([]byte{0x42}, 32)), ref.N)

// c10BadScalar lists invalid scalar encodings. A rejected scalar decode may change the receiver (the properties
// only constrain accepted inputs and the error), so the model re-reads the receiver's value afterwards; what must
// still hold is that every observation of the scalar is consistent with that value.
func c10BadScalar() [][]byte {
	return [][]byte{ref.Bytes32(ref.N), ref.Bytes32(new(big.Int).Sub(ref.Two256(), big.NewInt(1))), make([]byte, 31), {}}
}

// c10BadElem lists invalid element encodings: decoding them must fail and leave the receiver untouched.
func c10BadElem() [][]byte {
	c10BadOnce.Do(func() { c10Bad = c10BadElemBuild() })
	return c10Bad
}

var (
	c10BadOnce sync.Once
	c10Bad     [][]byte
)

func c10BadElemBuild() [][]byte {
	g := ref.G()
	off := int64(1)

	for ; ref.Fp.IsSquare(ref.Secp.RHS(big.NewInt(off))); off++ {
	}

	unc := ref.EncUncompressed(g)
	unc[64] ^= 1
	bad5 := ref.Enc(g)
	bad5[0] = 5

	out := [][]byte{
		append([]byte{2}, ref.Bytes32(big.NewInt(off))...), // x in range, not on the curve
		append([]byte{3}, ref.Bytes32(ref.P)...),           // x = p
		bad5, ref.Enc(g)[:32], unc, {1},
	}

	// non-canonical aliases of valid points: x + p resp. y + p still fits 32 bytes for tiny coordinates
	for _, np := range Points() {
		if np.P.Inf {
			continue
		}

		if np.P.X.BitLen() <= 16 {
			out = append(out, append(append([]byte{4}, ref.Bytes32(new(big.Int).Add(np.P.X, ref.P))...), ref.Bytes32(np.P.Y)...),
				append([]byte{byte(2 + np.P.Y.Bit(0))}, ref.Bytes32(new(big.Int).Add(np.P.X, ref.P))...))
		}

		if np.P.Y.BitLen() <= 16 {
			out = append(out, append(append([]byte{4}, ref.Bytes32(np.P.X)...), ref.Bytes32(new(big.Int).Add(np.P.Y, ref.P))...))
		}

		if len(out) >= 12 {
			break
		}
	}

	return out
}

// c10Sparse is a scalar with all-zero 64-bit words between non-zero ones and a short top word: 2^200 + 3.
var c10Sparse = new(big.Int).Add(new(big.Int).Lsh(big.NewInt(1), 200), big.NewInt(3))

// memoised oracle scalar multiplication
var c10MulMemo sync.Map

func c10Mul(k *big.Int, p ref.Pt) ref.Pt {
	key := k.Text(16) + "|" + ptStr(p)
	if v, ok := c10MulMemo.Load(key); ok {
		return v.(ref.Pt)
	}

	v := ref.Secp.Mul(k, p)
	c10MulMemo.Store(key, v)

	return v
}

var (
	c10HashOnce    sync.Once
	c10H2G, c10E2G ref.Pt
	c10H2S         *big.Int
)

func c10Hash() {
	c10H2G, c10E2G, c10H2S = ref.HashToCurve(c10Msg, c10DST), ref.EncodeToCurve(c10Msg, c10DST), ref.HashToScalar(c10Msg, c10DST)
	c10H2GLong, c10H2SLong = ref.HashToCurve(c10Msg, c10LongDST), ref.HashToScalar(c10Msg, c10LongDST)
}

// an oversize DST (300 bytes): hashing with it takes the extra reduction step of RFC 9380 5.3.3
var (
	c10LongDST = fill(300, 2)
	c10H2GLong ref.Pt
	c10H2SLong *big.Int
)

// c10Apply executes op from the concrete state on fresh variables and checks the C10 invariants for this one
// transition. It returns the successor state and model.
func c10Apply(st c10State, m c10Model, o c10Op) (ns c10State, nm c10Model, key, detail string) {
	c10HashOnce.Do(c10Hash)

	var (
		el [c10E]*secp256k1.Element
		sc [c10S]*secp256k1.Scalar
	)

	for i := range el {
		el[i] = fromRaw(st.e[i])
	}

	for i := range sc {
		sc[i] = scalarRaw(st.s[i])
	}

	nm = m

	var err error

	pan := catchStr(func() {
		if o.elem {
			r, a := el[o.i], el[o.j]

			switch o.name {
			case "Double":
				r.Double()
				nm.e[o.i] = ref.Secp.Double(m.e[o.i])
			case "Negate":
				r.Negate()
				nm.e[o.i] = ref.Secp.Neg(m.e[o.i])
			case "Identity":
				r.Identity()
				nm.e[o.i] = ref.Infinity()
			case "Base":
				r.Base()
				nm.e[o.i] = ref.G()
			case "zero;Identity":
				*r = secp256k1.Element{}
				r.Identity()
				nm.e[o.i] = ref.Infinity()
			case "zero;Base":
				*r = secp256k1.Element{}
				r.Base()
				nm.e[o.i] = ref.G()
			case "zero;Multiply(nil)":
				*r = secp256k1.Element{}
				r.Multiply(nil)
				nm.e[o.i] = ref.Infinity()
			case "zero;Decode(00)":
				*r = secp256k1.Element{}
				err = r.Decode([]byte{0})
				nm.e[o.i] = ref.Infinity()
			case "zero;Set":
				*r = secp256k1.Element{}
				r.Set(a)
				nm.e[o.i] = m.e[o.j]
			case "zero;Decode(Encode)":
				*r = secp256k1.Element{}
				err = r.Decode(a.Encode())
				nm.e[o.i] = m.e[o.j]
			case "Add(nil)":
				r.Add(nil)
			case "Subtract(nil)":
				r.Subtract(nil)
			case "Multiply(nil)":
				r.Multiply(nil)
				nm.e[o.i] = ref.Infinity()
			case "=HashToGroup":
				el[o.i] = secp256k1.HashToGroup(c10Msg, c10DST)
				nm.e[o.i] = c10H2G
			case "=EncodeToGroup":
				el[o.i] = secp256k1.EncodeToGroup(c10Msg, c10DST)
				nm.e[o.i] = c10E2G
			case "=HashToGroup(longDST)":
				el[o.i] = secp256k1.HashToGroup(c10Msg, c10LongDST)
				nm.e[o.i] = c10H2GLong
			case "=NewElement":
				el[o.i] = secp256k1.NewElement()
				nm.e[o.i] = ref.Infinity()
			case "Set":
				r.Set(a)
				nm.e[o.i] = m.e[o.j]
			case "Add":
				r.Add(a)
				nm.e[o.i] = ref.Secp.Add(m.e[o.i], m.e[o.j])
			case "Subtract":
				r.Subtract(a)
				nm.e[o.i] = ref.Secp.Sub(m.e[o.i], m.e[o.j])
			case "=Copy":
				c := a.Copy()
				if c == a {
					err = fmt.Errorf("Copy returned its receiver")
					return
				}

				probe := rawOf(a)
				c.Double().Negate()

				if rawOf(a) != probe {
					err = fmt.Errorf("mutating a copy changed its source")
					return
				}

				el[o.i] = a.Copy()
				nm.e[o.i] = m.e[o.j]
			case "Decode(Encode)":
				err = r.Decode(a.Encode())
				nm.e[o.i] = m.e[o.j]
			case "Decode(EncodeUncompressed)":
				err = r.Decode(a.EncodeUncompressed())
				nm.e[o.i] = m.e[o.j]
			case "DecodeHex(Hex)":
				err = r.DecodeHex(a.Hex())
				nm.e[o.i] = m.e[o.j]
			case "UnmarshalBinary(MarshalBinary)":
				b, _ := a.MarshalBinary()
				err = r.UnmarshalBinary(b)
				nm.e[o.i] = m.e[o.j]
			case "DecodeCompressed(Encode)":
				// the dedicated decoders do not take the identity's one-byte form: the model then keeps the receiver
				if m.e[o.j].Inf {
					if derr := r.DecodeCompressed(a.Encode()); derr == nil {
						err = fmt.Errorf("DecodeCompressed accepted the identity encoding")
					}
				} else {
					err = r.DecodeCompressed(a.Encode())
					nm.e[o.i] = m.e[o.j]
				}
			case "DecodeUncompressed(EncodeUncompressed)":
				if m.e[o.j].Inf {
					if derr := r.DecodeUncompressed(a.EncodeUncompressed()); derr == nil {
						err = fmt.Errorf("DecodeUncompressed accepted the identity encoding")
					}
				} else {
					err = r.DecodeUncompressed(a.EncodeUncompressed())
					nm.e[o.i] = m.e[o.j]
				}
			case "DecodeCoordinates(affine)":
				if !m.e[o.j].Inf {
					err = r.DecodeCoordinates(ref.Arr32(m.e[o.j].X), ref.Arr32(m.e[o.j].Y))
					nm.e[o.i] = m.e[o.j]
				}
			case "Multiply":
				r.Multiply(sc[o.k])
				nm.e[o.i] = c10Mul(m.s[o.k], m.e[o.i])
			case "Decode(invalid)":
				if derr := r.Decode(c10BadElem()[o.k]); derr == nil {
					err = fmt.Errorf("invalid encoding %x accepted", c10BadElem()[o.k])
				}
			default:
				panic("unknown element op " + o.name)
			}

			return
		}

		r, a := sc[o.i], sc[o.j]

		switch o.name {
		case "Zero":
			r.Zero()
			nm.s[o.i] = big.NewInt(0)
		case "One":
			r.One()
			nm.s[o.i] = big.NewInt(1)
		case "MinusOne":
			r.MinusOne()
			nm.s[o.i] = new(big.Int).Sub(ref.N, big.NewInt(1))
		case "Random":
			// crypto/rand.Reader is a constant stream in the harness processes (package conc), so the result is known
			r.Random()
			nm.s[o.i] = c10RandomValue
		case "SetUInt64(3)":
			r.SetUInt64(3)
			nm.s[o.i] = big.NewInt(3)
		case "SetSparse":
			err = r.Decode(ref.Bytes32(c10Sparse))
			nm.s[o.i] = c10Sparse
		case "Square":
			r.Square()
			nm.s[o.i] = ref.Zn.Sqr(m.s[o.i])
		case "Invert":
			r.Invert()
			nm.s[o.i] = ref.Zn.Inv0(m.s[o.i])
		case "Add(nil)":
			r.Add(nil)
		case "Subtract(nil)":
			r.Subtract(nil)
		case "Multiply(nil)":
			r.Multiply(nil)
			nm.s[o.i] = big.NewInt(0)
		case "Set(nil)":
			r.Set(nil)
			nm.s[o.i] = big.NewInt(0)
		case "=HashToScalar":
			sc[o.i] = secp256k1.HashToScalar(c10Msg, c10DST)
			nm.s[o.i] = c10H2S
		case "=HashToScalar(longDST)":
			sc[o.i] = secp256k1.HashToScalar(c10Msg, c10LongDST)
			nm.s[o.i] = c10H2SLong
		case "Set":
			r.Set(a)
			nm.s[o.i] = m.s[o.j]
		case "Add":
			r.Add(a)
			nm.s[o.i] = ref.Zn.Add(m.s[o.i], m.s[o.j])
		case "Subtract":
			r.Subtract(a)
			nm.s[o.i] = ref.Zn.Sub(m.s[o.i], m.s[o.j])
		case "Multiply":
			r.Multiply(a)
			nm.s[o.i] = ref.Zn.Mul(m.s[o.i], m.s[o.j])
		case "Pow":
			r.Pow(a)
			nm.s[o.i] = ref.Zn.Exp(m.s[o.i], m.s[o.j])
		case "=Copy":
			c := a.Copy()
			if c == a {
				err = fmt.Errorf("Copy returned its receiver")
				return
			}

			probe := a.S
			c.Add(c).Square()

			if a.S != probe {
				err = fmt.Errorf("mutating a copy changed its source")
				return
			}

			sc[o.i] = a.Copy()
			nm.s[o.i] = m.s[o.j]
		case "Decode(Encode)":
			err = r.Decode(a.Encode())
			nm.s[o.i] = m.s[o.j]
		case "DecodeHex(Hex)":
			err = r.DecodeHex(a.Hex())
			nm.s[o.i] = m.s[o.j]
		case "UnmarshalBinary(MarshalBinary)":
			b, _ := a.MarshalBinary()
			err = r.UnmarshalBinary(b)
			nm.s[o.i] = m.s[o.j]
		case "CSelect(0,self,arg)":
			err = r.CSelect(0, r, a)
		case "CSelect(1,self,arg)":
			err = r.CSelect(1, r, a)
			nm.s[o.i] = m.s[o.j]
		case "CSelect(nil)":
			if cerr := r.CSelect(1, r, nil); cerr == nil {
				err = fmt.Errorf("CSelect with a nil operand reported no error")
			}
		case "Decode(invalid)":
			if derr := r.Decode(c10BadScalar()[o.k]); derr == nil {
				err = fmt.Errorf("invalid scalar encoding %x accepted", c10BadScalar()[o.k])
			}

			nm.s[o.i] = ref.Unmont(r.S, ref.N) // re-sync from the stored limbs: the value after a rejected decode is not specified
		default:
			panic("unknown scalar op " + o.name)
		}
	})

	desc := func() string { return fmt.Sprintf("op %v from state %s", o, c10ModelString(m)) }

	if pan != "" {
		return st, m, o.name + "/panic", desc() + ": " + pan
	}

	if err != nil {
		return st, m, o.name + "/error", desc() + ": " + err.Error()
	}

	for i := range el {
		ns.e[i] = rawOf(el[i])

		if o.elem && i == o.i {
			if (o.name == "Decode(invalid)" || o.name == "Add(nil)" || o.name == "Subtract(nil)") && ns.e[i] != st.e[i] {
				return ns, nm, o.name + "/receiver-changed", fmt.Sprintf("%s: e%d", desc(), i)
			}

			if ok, why := elementIs(el[i], nm.e[i]); !ok {
				return ns, nm, o.name + "/receiver-differs-from-model", fmt.Sprintf("%s: e%d: %s", desc(), i, why)
			}

			continue
		}

		if ns.e[i] != st.e[i] {
			return ns, nm, o.name + "/non-receiver-bits-changed", fmt.Sprintf("%s: e%d", desc(), i)
		}
	}

	for i := range sc {
		ns.s[i] = sc[i].S

		if !o.elem && i == o.i {
			if ok, why := scalarIs(sc[i], nm.s[i]); !ok {
				return ns, nm, o.name + "/receiver-differs-from-model", fmt.Sprintf("%s: s%d: %s", desc(), i, why)
			}

			continue
		}

		if ns.s[i] != st.s[i] {
			return ns, nm, o.name + "/non-receiver-bits-changed", fmt.Sprintf("%s: s%d", desc(), i)
		}
	}

	// observables
	if (el[0].Equal(el[1]) == 1) != nm.e[0].Eq(nm.e[1]) || (el[1].Equal(el[0]) == 1) != nm.e[0].Eq(nm.e[1]) {
		return ns, nm, o.name + "/Equal-differs-from-model", desc()
	}

	for i := range el {
		if el[i].IsIdentity() != nm.e[i].Inf {
			return ns, nm, o.name + "/IsIdentity-differs-from-model", desc()
		}
	}

	if (sc[0].Equal(sc[1]) == 1) != (nm.s[0].Cmp(nm.s[1]) == 0) {
		return ns, nm, o.name + "/scalar-Equal-differs-from-model", desc()
	}

	for i := range sc {
		if sc[i].IsZero() != (nm.s[i].Sign() == 0) {
			return ns, nm, o.name + "/IsZero-differs-from-model", desc()
		}

		if !bitsAgree(sc[i], nm.s[i]) {
			return ns, nm, o.name + "/Bits-differs-from-model", desc()
		}
	}

	return ns, nm, "", ""
}

// bitsAgree reports whether s.Bits() is the binary expansion of v.
func bitsAgree(s *secp256k1.Scalar, v *big.Int) bool {
	bits := s.Bits()
	for i := 0; i < 256; i++ {
		if uint(bits[i]) != v.Bit(i) {
			return false
		}
	}

	return true
}

func c10ModelString(m c10Model) string {
	s := ""
	for i, p := range m.e {
		s += fmt.Sprintf("e%d=%x ", i, ref.Enc(p))
	}

	for i, v := range m.s {
		s += fmt.Sprintf("s%d=%x ", i, v)
	}

	return s
}

type c10Node struct {
	st   c10State
	m    c10Model
	path []int // operation indices from the initial state
}

func c10Initial() (c10State, c10Model) {
	var (
		st c10State
		m  c10Model
	)

	e0, e1 := secp256k1.NewElement(), secp256k1.Base()
	st.e[0], st.e[1] = rawOf(e0), rawOf(e1)
	m.e[0], m.e[1] = ref.Infinity(), ref.G()
	k := new(big.Int).Sub(ref.N, big.NewInt(0x1234567))
	st.s[0], st.s[1] = [4]uint64{}, ref.Mont(k, ref.N)
	m.s[0], m.s[1] = big.NewInt(0), k

	return st, m
}

// C10real: depth-bounded BFS over histories on the real curve.
func C10real(r *ev.Report) {
	depth := 4
	if ev.Thorough() {
		depth = 5
	}

	ops := c10Ops()
	r.Rule("real curve, explicit-state BFS over histories: pool of 2 element + 2 scalar variables, initial state (NewElement, Base, 0, n-0x1234567); every operation instance from every reached state up to the depth bound: element Set/Add/Subtract/Copy/Decode(Encode)/Decode(EncodeUncompressed)/DecodeHex/UnmarshalBinary for every receiver/argument pair incl. the same variable, Multiply by each scalar variable, Double/Negate/Identity/Base/nil forms/HashToGroup/EncodeToGroup/NewElement; scalar Set/Add/Subtract/Multiply/Pow/Copy/Decode/DecodeHex/CSelect for every pair, Zero/One/MinusOne/SetUInt64/Square/Invert/nil forms/HashToScalar; states de-duplicated on the concrete raw limbs; per transition: receiver == abstract model (math/big curve / Z_n, canonical encoding), non-receivers bit-identical, Equal/IsIdentity/IsZero observables == model, copies independent; non-trivial = states beyond the initial one")
	r.Bound("operation_instances", len(ops))
	r.Bound("depth_bound", depth)

	globals := secp256k1.VerifAllGlobals()
	st0, m0 := c10Initial()
	seen := map[[16]byte]bool{st0.key(): true}
	frontier := []c10Node{{st0, m0, nil}}
	completed := 0

	for d := 1; d <= depth && len(frontier) > 0; d++ {
		var next []c10Node

		nNew := 0

		// the frontier is expanded in chunks so that the successors held in memory at any time stay bounded
		const chunk = 4096

		for lo := 0; lo < len(frontier); lo += chunk {
			hi := lo + chunk
			if hi > len(frontier) {
				hi = len(frontier)
			}

			part := frontier[lo:hi]
			succ := make([][]c10Node, len(part))

			r.ParFor(len(part), func(_, fi int) {
				nd := part[fi]
				local := make([]c10Node, 0, len(ops))

				for oi, o := range ops {
					ns, nm, key, detail := c10Apply(nd.st, nd.m, o)
					r.Transitions.Add(1)
					r.Evals.Add(1)

					if key != "" {
						c := Case{"op": "history", "path": fmt.Sprint(append(append([]int{}, nd.path...), oi))}
						r.Violation(key, detail+fmt.Sprintf(" (history of %d operations)", len(nd.path)+1), c)

						continue
					}

					if d == depth {
						// last level: only the state's identity is needed (for the count of distinct states)
						local = append(local, c10Node{st: ns})
						continue
					}

					local = append(local, c10Node{ns, nm, append(append(make([]int, 0, len(nd.path)+1), nd.path...), oi)})
				}

				succ[fi] = local
			})

			for _, l := range succ {
				for _, nd := range l {
					k := nd.st.key()
					if !seen[k] {
						seen[k] = true

						if d < depth {
							next = append(next, nd)
						} else {
							nNew++
						}
					}
				}
			}

			if r.Expired() {
				break
			}
		}

		if r.Expired() {
			r.Incomplete(fmt.Sprintf("wall-clock guard during depth %d", d))
			break
		}

		completed = d
		r.Bound(fmt.Sprintf("new_states_at_depth_%d", d), len(next)+nNew)
		frontier = next
	}

	if g := secp256k1.VerifAllGlobals(); g != globals {
		r.PackageState("globals/changed", fmt.Sprintf("package-level state changed: %s -> %s", globals, g), Case{"op": "globals"})
	}

	if g := secp256k1.VerifAllGlobals(); prelude.Baseline != "" && g != prelude.Baseline {
		r.PackageState("globals/differ-from-process-start", fmt.Sprintf("package-level state is not what it was before the first call into the library: %s -> %s", prelude.Baseline, g), Case{"op": "globals"})
	}

	r.Bound("depth_completed", completed)
	r.States.Add(int64(len(seen)))
	r.Distinct.Add(int64(len(seen) - 1))
	r.Sample(Case{"op": "history", "path": "[3 20 41]", "meaning": fmt.Sprintf("%v ; %v ; %v", ops[3], ops[20], ops[41])})
}

func c10Replay(c Case) (bool, string) {
	var path []int

	s := c["path"]
	s = s[1 : len(s)-1]

	for _, f := range bytes.Fields([]byte(s)) {
		var i int
		fmt.Sscan(string(f), &i)
		path = append(path, i)
	}

	ops := c10Ops()
	st, m := c10Initial()

	for n, oi := range path {
		if oi < 0 || oi >= len(ops) {
			return false, "bad operation index"
		}

		var key, detail string

		st, m, key, detail = c10Apply(st, m, ops[oi])
		if key != "" {
			return false, fmt.Sprintf("step %d (%v): %s %s", n, ops[oi], key, detail)
		}
	}

	return true, ""
}

func init() {
	Parts["C10real"] = Part{"C10", C10real}
	Replayers["C10"] = func(c Case) (bool, string) {
		if c["op"] == "persist" {
			var path []int

			s := c["path"]
			for _, f := range bytes.Fields([]byte(s[1 : len(s)-1])) {
				var i int
				fmt.Sscan(string(f), &i)
				path = append(path, i)
			}

			key, detail := c10PersistRunFrom(path, c10Ops(), c["alt"] == "true")

			return key == "", key + " " + detail
		}

		if c["op"] == "replay13" {
			var (
				st  c10State
				m   c10Model
				oi  int
				ops []c10Op
			)

			for _, o := range c10Ops() {
				if o.elem {
					ops = append(ops, o)
				}
			}

			fmt.Sscan(c["opindex"], &oi)
			a, b := repFromCase("a", c), repFromCase("b", c)
			two, nm1 := big.NewInt(2), new(big.Int).Sub(ref.N, big.NewInt(1))
			st.e[0], st.e[1] = rawOf(newElement(a)), rawOf(newElement(b))
			m.e[0], m.e[1] = a.P, b.P
			st.s[0], st.s[1] = ref.Mont(two, ref.N), ref.Mont(nm1, ref.N)
			m.s[0], m.s[1] = two, nm1
			_, _, key, detail := c10Apply(st, m, ops[oi])

			return key == "", key + " " + detail
		}

		if c["op"] != "history" {
			return false, "not replayable as a single case; re-run the check"
		}

		return c10Replay(c)
	}
}
