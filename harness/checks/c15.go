package checks

import (
	"bytes"
	"fmt"
	"go/ast"
	"go/parser"
	"go/token"
	"math/big"
	"os"
	"path/filepath"
	"sort"
	"strings"

	secp256k1 "github.com/bytemare/secp256k1"
	"github.com/bytemare/secp256k1/internal/verif/ev"
	"github.com/bytemare/secp256k1/internal/verif/prelude"
	"github.com/bytemare/secp256k1/internal/verif/ref"
)

// layout describes how a slice argument is carved out of a larger caller-owned buffer.
type layout struct {
	pre, post int
	clip      bool // capacity clipped to the length
	fill      byte
}

func layouts() []layout {
	var out []layout

	for _, pre := range []int{0, 3} {
		for _, post := range []int{0, 1, 2, 32, 64} {
			for _, clip := range []bool{false, true} {
				for _, fill := range []byte{0x5a, 0xa5} {
					out = append(out, layout{pre, post, clip, fill})
				}
			}
		}
	}

	return out
}

// carve returns the slice handed to the API and the whole backing buffer.
func carve(content []byte, l layout) (arg, whole []byte) {
	whole = make([]byte, l.pre+len(content)+l.post)
	for i := range whole {
		whole[i] = l.fill ^ byte(i*31)
	}

	copy(whole[l.pre:], content)

	if l.clip {
		return whole[l.pre : l.pre+len(content) : l.pre+len(content)], whole
	}

	return whole[l.pre : l.pre+len(content)], whole
}

func (l layout) String() string {
	return fmt.Sprintf("pre=%d post=%d clip=%v fill=%#x", l.pre, l.post, l.clip, l.fill)
}

// sliceFn is an API function with byte-slice arguments.
type sliceFn struct {
	name string
	call func(args [][]byte)
	args func() [][][]byte // alphabet of argument tuples
}

func validInvalidElementEncodings() [][][]byte {
	g := ref.G()
	h := HPoint()
	bad := ref.Enc(g)
	bad[0] = 5
	offx := append([]byte{2}, ref.Bytes32(big.NewInt(5))...)
	big := append([]byte{2}, ref.Bytes32(ref.P)...)

	var out [][][]byte
	for _, b := range [][]byte{ref.Enc(g), ref.Enc(h), ref.EncUncompressed(g), ref.EncUncompressed(h), {0}, {1}, bad, offx, big, ref.Enc(g)[:32], make([]byte, 65), make([]byte, 7)} {
		out = append(out, [][]byte{b})
	}

	return out
}

func scalarEncodings() [][][]byte {
	var out [][][]byte
	for _, b := range [][]byte{ref.Bytes32(big.NewInt(1)), ref.Bytes32(new(big.Int).Sub(ref.N, big.NewInt(1))), ref.Bytes32(ref.N), ref.Bytes32(new(big.Int).Sub(ref.Two256(), big.NewInt(1))), make([]byte, 31), make([]byte, 33)} {
		out = append(out, [][]byte{b})
	}

	return out
}

func hashArgs() [][][]byte {
	var out [][][]byte

	msgs := [][]byte{{}, []byte("m"), fill(55, 2), fill(64, 1), fill(200, 2)}
	dsts := [][]byte{[]byte("d"), fill(16, 2), fill(17, 2), fill(63, 2), fill(64, 1), fill(254, 2), fill(255, 2), fill(256, 2), fill(300, 2)}

	for _, m := range msgs {
		for _, d := range dsts {
			out = append(out, [][]byte{m, d})
		}
	}

	return out
}

func sliceFns() []sliceFn {
	dec := func(name string, f func(e *secp256k1.Element, b []byte) error) sliceFn {
		return sliceFn{"Element." + name, func(a [][]byte) { _ = f(secp256k1.NewElement(), a[0]) }, validInvalidElementEncodings}
	}

	return []sliceFn{
		{"HashToGroup", func(a [][]byte) { secp256k1.HashToGroup(a[0], a[1]) }, hashArgs},
		{"EncodeToGroup", func(a [][]byte) { secp256k1.EncodeToGroup(a[0], a[1]) }, hashArgs},
		{"HashToScalar", func(a [][]byte) { secp256k1.HashToScalar(a[0], a[1]) }, hashArgs},
		dec("Decode", (*secp256k1.Element).Decode),
		dec("DecodeCompressed", (*secp256k1.Element).DecodeCompressed),
		dec("DecodeUncompressed", (*secp256k1.Element).DecodeUncompressed),
		dec("UnmarshalBinary", (*secp256k1.Element).UnmarshalBinary),
		{"Scalar.Decode", func(a [][]byte) { _ = secp256k1.NewScalar().Decode(a[0]) }, scalarEncodings},
		{"Scalar.UnmarshalBinary", func(a [][]byte) { _ = secp256k1.NewScalar().UnmarshalBinary(a[0]) }, scalarEncodings},
	}
}

// c15SliceCase calls fn with every argument carved by layout l and compares the whole backing arrays.
func c15SliceCase(fn sliceFn, tuple [][]byte, l layout) (key, detail string) {
	args := make([][]byte, len(tuple))
	wholes := make([][]byte, len(tuple))
	snaps := make([][]byte, len(tuple))

	for i, c := range tuple {
		args[i], wholes[i] = carve(c, l)
		snaps[i] = append([]byte{}, wholes[i]...)
	}

	if p := catchStr(func() { fn.call(args) }); p != "" {
		return fn.name + "/panic", fmt.Sprintf("layout %v: %s", l, p)
	}

	for i := range wholes {
		if !bytes.Equal(wholes[i], snaps[i]) {
			off := 0
			for off < len(snaps[i]) && wholes[i][off] == snaps[i][off] {
				off++
			}

			where := "inside the slice"
			if off >= l.pre+len(tuple[i]) {
				where = "in the spare capacity beyond len"
			} else if off < l.pre {
				where = "before the slice"
			}

			return fmt.Sprintf("%s/writes-to-argument-%d/%s", fn.name, i, strings.ReplaceAll(where, " ", "-")),
				fmt.Sprintf("argument %d (len %d) layout %v: byte at buffer offset %d changed %#x -> %#x", i, len(tuple[i]), l, off, snaps[i][off], wholes[i][off])
		}
	}

	return "", ""
}

// resultFn is an API function returning a byte slice; src re-creates the value it is taken from.
type resultFn struct {
	name string
	get  func() []byte
}

func resultFns() []resultFn {
	e := newElement(Rep{HPoint(), big.NewInt(3)})
	id := secp256k1.NewElement()
	s := newScalar(new(big.Int).Sub(ref.N, big.NewInt(5)))

	mb := func(f func() ([]byte, error)) func() []byte {
		return func() []byte {
			b, _ := f()
			return b
		}
	}

	return []resultFn{
		{"Element.Encode", e.Encode},
		{"Element.Encode(identity)", id.Encode},
		{"Element.EncodeUncompressed", e.EncodeUncompressed},
		{"Element.EncodeUncompressed(identity)", id.EncodeUncompressed},
		{"Element.XCoordinate", e.XCoordinate},
		{"Element.MarshalBinary", mb(e.MarshalBinary)},
		{"Scalar.Encode", s.Encode},
		{"Scalar.MarshalBinary", mb(s.MarshalBinary)},
		{"Order", secp256k1.Order},
	}
}

func c15ResultCase(fn resultFn) (key, detail string) {
	orig := append([]byte{}, fn.get()...)
	r1, r2 := fn.get(), fn.get()

	if len(r1) > 0 && len(r2) > 0 && &r1[0] == &r2[0] {
		return fn.name + "/results-share-backing-array", "two successive calls returned the same memory"
	}

	full := r1[:cap(r1)]
	for i := range full {
		full[i] ^= 0xff
	}

	if !bytes.Equal(r2, orig) {
		return fn.name + "/overwriting-a-result-changed-an-earlier-result", fmt.Sprintf("%x -> %x", orig, r2)
	}

	if r3 := fn.get(); !bytes.Equal(r3, orig) {
		return fn.name + "/overwriting-a-result-changed-a-later-result", fmt.Sprintf("%x -> %x", orig, r3)
	}

	return "", ""
}

// pointer arguments: every binary method, operand snapshot before/after.
func c15PointerCases() (n int, key, detail string) {
	pts := Reps(2)
	ks := []*big.Int{big.NewInt(0), big.NewInt(1), big.NewInt(2), new(big.Int).Sub(ref.N, big.NewInt(1)), new(big.Int).Lsh(big.NewInt(1), 255)}

	for _, a := range pts[:24] {
		for _, b := range pts[:24] {
			for name, f := range map[string]func(x, y *secp256k1.Element){
				"Element.Add":      func(x, y *secp256k1.Element) { x.Add(y) },
				"Element.Subtract": func(x, y *secp256k1.Element) { x.Subtract(y) },
				"Element.Set":      func(x, y *secp256k1.Element) { x.Set(y) },
				"Element.Equal":    func(x, y *secp256k1.Element) { x.Equal(y) },
			} {
				x, y := newElement(a.Rep), newElement(b.Rep)
				before := rawOf(y)
				f(x, y)
				n++

				if rawOf(y) != before {
					return n, name + "/argument-changed", fmt.Sprintf("A=%s B=%s", ptStr(a.P), ptStr(b.P))
				}
			}
		}

		for _, k := range ks {
			s := newScalar(k)
			newElement(a.Rep).Multiply(s)
			n++

			if s.S != ref.Mont(k, ref.N) {
				return n, "Element.Multiply/scalar-changed", fmt.Sprintf("k=%x", k)
			}
		}
	}

	// exported functions that take field elements: SSWU must not touch u, Secp256Polynomial must not touch x
	us := []*big.Int{big.NewInt(0), big.NewInt(1), big.NewInt(2), new(big.Int).Sub(ref.P, big.NewInt(1)), new(big.Int).Lsh(big.NewInt(1), 200), ref.Gx}
	if sq := ref.Fp.Sqrt(ref.Fp.Neg(ref.Fp.Inv0(ref.SSWUZ))); sq != nil {
		us = append(us, sq, ref.Fp.Neg(sq))
	}

	for _, u := range us {
		fu := feVal(u)
		before := fu.E
		secp256k1.SSWU(fu)
		n++

		if fu.E != before {
			return n, "SSWU/argument-changed", fmt.Sprintf("u=%x", u)
		}

		fx, fy := feVal(u), feVal(big.NewInt(3))
		secp256k1.Secp256Polynomial(fy, fx)
		n++

		if fx.E != before {
			return n, "Secp256Polynomial/argument-changed", fmt.Sprintf("x=%x", u)
		}
	}

	vals := []*big.Int{big.NewInt(0), big.NewInt(1), big.NewInt(2), new(big.Int).Sub(ref.N, big.NewInt(1)), new(big.Int).Rsh(ref.N, 1), new(big.Int).Lsh(big.NewInt(1), 200)}

	for _, a := range vals {
		for _, b := range vals {
			for name, f := range map[string]func(x, y *secp256k1.Scalar){
				"Scalar.Add":         func(x, y *secp256k1.Scalar) { x.Add(y) },
				"Scalar.Subtract":    func(x, y *secp256k1.Scalar) { x.Subtract(y) },
				"Scalar.Multiply":    func(x, y *secp256k1.Scalar) { x.Multiply(y) },
				"Scalar.Pow":         func(x, y *secp256k1.Scalar) { x.Pow(y) },
				"Scalar.Set":         func(x, y *secp256k1.Scalar) { x.Set(y) },
				"Scalar.Equal":       func(x, y *secp256k1.Scalar) { x.Equal(y) },
				"Scalar.LessOrEqual": func(x, y *secp256k1.Scalar) { x.LessOrEqual(y) },
				"Scalar.CSelect(u)":  func(x, y *secp256k1.Scalar) { _ = secp256k1.NewScalar().CSelect(1, y, x) },
				"Scalar.CSelect(v)":  func(x, y *secp256k1.Scalar) { _ = secp256k1.NewScalar().CSelect(0, x, y) },
			} {
				x, y := newScalar(a), newScalar(b)
				f(x, y)
				n++

				if y.S != ref.Mont(b, ref.N) {
					return n, name + "/argument-changed", fmt.Sprintf("a=%x b=%x", a, b)
				}
			}
		}
	}

	return n, "", ""
}

// exportedAPI parses the root package of the tree under test and lists the exported functions and methods that
// take a []byte / *Element / *Scalar parameter or return a []byte.
func exportedAPI() ([]string, error) {
	dir := os.Getenv("VERIF_SRC")
	if dir == "" {
		dir = os.Getenv("VERIF_REPO")
	}

	if dir == "" {
		dir = "/repo"
	}

	fset := token.NewFileSet()

	files, err := filepath.Glob(filepath.Join(dir, "*.go"))
	if err != nil {
		return nil, err
	}

	var out []string

	for _, f := range files {
		if strings.HasSuffix(f, "_test.go") {
			continue
		}

		af, err := parser.ParseFile(fset, f, nil, parser.SkipObjectResolution)
		if err != nil {
			return nil, err
		}

		for _, d := range af.Decls {
			fd, ok := d.(*ast.FuncDecl)
			if !ok || !fd.Name.IsExported() {
				continue
			}

			name := fd.Name.Name

			if fd.Recv != nil && len(fd.Recv.List) == 1 {
				t := fd.Recv.List[0].Type
				if st, ok := t.(*ast.StarExpr); ok {
					t = st.X
				}

				id, ok := t.(*ast.Ident)
				if !ok || !id.IsExported() {
					continue
				}

				name = id.Name + "." + name
			}

			relevant := false

			check := func(fl *ast.FieldList, results bool) {
				if fl == nil {
					return
				}

				for _, p := range fl.List {
					switch t := p.Type.(type) {
					case *ast.ArrayType:
						if id, ok := t.Elt.(*ast.Ident); ok && id.Name == "byte" && t.Len == nil {
							relevant = true
						}
					case *ast.StarExpr:
						if id, ok := t.X.(*ast.Ident); ok && !results && (id.Name == "Element" || id.Name == "Scalar") {
							relevant = true
						}

						if sel, ok := t.X.(*ast.SelectorExpr); ok && !results && sel.Sel.Name == "Element" {
							relevant = true // *field.Element
						}
					}
				}
			}

			check(fd.Type.Params, false)
			check(fd.Type.Results, true)

			if relevant {
				out = append(out, name)
			}
		}
	}

	sort.Strings(out)

	return out, nil
}

var c15Covered = map[string]bool{
	"HashToGroup": true, "EncodeToGroup": true, "HashToScalar": true, "Order": true, "SSWU": true, "Secp256Polynomial": true,
	// IsogenySecp256k13iso maps its argument in place and returns it (documented; it is the receiver in all but name)
	"IsogenySecp256k13iso": true,
	"Element.Add":          true, "Element.Subtract": true, "Element.Set": true, "Element.Multiply": true, "Element.Equal": true,
	"Element.Decode": true, "Element.DecodeCompressed": true, "Element.DecodeUncompressed": true, "Element.UnmarshalBinary": true,
	"Element.Encode": true, "Element.EncodeUncompressed": true, "Element.XCoordinate": true, "Element.MarshalBinary": true,
	"Scalar.Add": true, "Scalar.Subtract": true, "Scalar.Multiply": true, "Scalar.Pow": true, "Scalar.Set": true,
	"Scalar.Equal": true, "Scalar.LessOrEqual": true, "Scalar.CSelect": true, "Scalar.Decode": true,
	"Scalar.UnmarshalBinary": true, "Scalar.Encode": true, "Scalar.MarshalBinary": true,
}

// C15 checks that no API call writes to caller-owned memory and that results are fresh.
func C15(r *ev.Report) {
	r.Rule("every exported function with a byte-slice parameter x argument-value alphabet (hash inputs: message and DST length alphabets incl. DST 16, 17, 63, 64, 254..256, 300; decoders: valid encodings and every class of invalid one) x 40 backing-array layouts (offset 0/3, spare capacity 0/1/2/32/64, capacity clipped or open, two complementary fills): the whole backing array is compared with its snapshot; every function returning a byte slice: two calls share no memory and overwriting one result over its full capacity changes neither earlier nor later results; every pointer operand bit-identical after the call; package-level variables unchanged; non-trivial = layout with spare capacity left open")

	globals := secp256k1.VerifAllGlobals()
	ls := layouts()
	fns := sliceFns()

	type job struct {
		fn    sliceFn
		tuple [][]byte
	}

	var jobs []job

	for _, fn := range fns {
		for _, t := range fn.args() {
			jobs = append(jobs, job{fn, t})
		}
	}

	r.Bound("slice_functions", len(fns))
	r.Bound("argument_tuples", len(jobs))
	r.Bound("layouts", len(ls))
	r.States.Add(int64(len(jobs) * len(ls)))

	r.ParFor(len(jobs), func(_, i int) {
		j := jobs[i]

		for _, l := range ls {
			r.Transitions.Add(1)
			r.Evals.Add(1)

			if l.post > 0 && !l.clip {
				r.Distinct.Add(1)
				r.Count("layouts_with_open_spare_capacity", 1)
			}

			if key, detail := c15SliceCase(j.fn, j.tuple, l); key != "" {
				args := Case{"op": "slice", "fn": j.fn.name, "layout": fmt.Sprintf("%d,%d,%v,%d", l.pre, l.post, l.clip, l.fill)}
				for k, a := range j.tuple {
					args[fmt.Sprintf("arg%d", k)] = hb(a)
				}

				r.Violation(key, detail, args)
			}
		}
	})

	for _, fn := range resultFns() {
		r.Transitions.Add(4)
		r.Evals.Add(1)
		r.States.Add(1)
		r.Count("result_functions", 1)

		if key, detail := c15ResultCase(fn); key != "" {
			r.Violation(key, detail, Case{"op": "result", "fn": fn.name})
		}
	}

	n, key, detail := c15PointerCases()
	r.Transitions.Add(int64(n))
	r.Evals.Add(int64(n))
	r.Count("pointer_operand_calls", int64(n))

	if key != "" {
		r.Violation(key, detail, Case{"op": "pointer"})
	}

	if g := secp256k1.VerifAllGlobals(); g != globals {
		r.PackageState("globals/changed", fmt.Sprintf("package-level state changed: %s -> %s", globals, g), Case{"op": "globals"})
	}

	if g := secp256k1.VerifAllGlobals(); prelude.Baseline != "" && g != prelude.Baseline {
		r.PackageState("globals/differ-from-process-start", fmt.Sprintf("package-level state is not what it was before the first call into the library: %s -> %s", prelude.Baseline, g), Case{"op": "globals"})
	}

	api, err := exportedAPI()
	if err != nil {
		r.Note("exported API could not be parsed: %v", err)
	} else {
		var uncovered []string

		for _, f := range api {
			if !c15Covered[f] {
				uncovered = append(uncovered, f)
			}
		}

		r.Bound("exported_functions_with_slice_or_pointer_signature", len(api))
		r.Note("exported functions with a slice/pointer signature not in the table (uncovered, not a violation): %v", uncovered)
		r.Note("package-level variables covered by the globals digest: secp256k1 %v", secp256k1.VerifGlobalNames())
	}

	r.Sample(Case{"op": "slice", "fn": "HashToScalar", "layout": "0,2,false,90", "arg0": hb([]byte("m")), "arg1": hb(fill(17, 2))})
	r.Sample(Case{"op": "result", "fn": "Order"})
	r.RequireNonVacuous("layouts_with_open_spare_capacity", "result_functions", "pointer_operand_calls")
}

func init() {
	Parts["C15"] = Part{"C15", C15}
	Replayers["C15"] = func(c Case) (bool, string) {
		var key, detail string

		switch c["op"] {
		case "slice":
			var l layout
			fmt.Sscanf(c["layout"], "%d,%d,%t,%d", &l.pre, &l.post, &l.clip, &l.fill)

			for _, fn := range sliceFns() {
				if fn.name != c["fn"] {
					continue
				}

				var tuple [][]byte
				for k := 0; ; k++ {
					a, ok := c[fmt.Sprintf("arg%d", k)]
					if !ok {
						break
					}

					tuple = append(tuple, unhb(a))
				}

				key, detail = c15SliceCase(fn, tuple, l)
			}
		case "result":
			for _, fn := range resultFns() {
				if fn.name == c["fn"] {
					key, detail = c15ResultCase(fn)
				}
			}
		case "pointer":
			_, key, detail = c15PointerCases()
		}

		return key == "", key + " " + detail
	}
}
