package checks

import (
	"fmt"
	"math/big"
	"strconv"
	"strings"

	"github.com/bytemare/secp256k1/internal/field"
	"github.com/bytemare/secp256k1/internal/verif/alpha"
	"github.com/bytemare/secp256k1/internal/verif/ev"
	"github.com/bytemare/secp256k1/internal/verif/ref"
)

// C12persist: histories on PERSISTENT field elements. The sweeps of C12 call every operation on freshly built
// operands; state that an element carries besides its limbs (a hint, a cached form, a lazily reduced flag) and that
// one method sets and another forgets to clear is visible only when the same object goes through several calls.
// Every sequence of operations up to the depth bound is applied to a pool of two persistent elements (stateless
// search: each history is replayed from fresh objects); after every step both elements are compared with the F_p
// model, directly (stored limbs canonical and equal to the model) and through what other operations compute FROM
// them (x*x, x^2, 2x, x+x, x == x on fresh receivers).

type c12pOp struct {
	name string
	recv int
}

var c12pConsts []*big.Int

func c12pInit() {
	if c12pConsts != nil {
		return
	}

	c12pConsts = []*big.Int{big.NewInt(0), big.NewInt(1), big.NewInt(2), new(big.Int).Sub(ref.P, big.NewInt(1)), ref.Mod(alpha.Fixed(1, "c12persist")[0], ref.P)}
}

func c12pOps() []c12pOp {
	c12pInit()

	var ops []c12pOp

	for recv := 0; recv < 2; recv++ {
		for _, n := range []string{"One", "Set(other)", "assign(other)", "Add(self,other)", "Subtract(other,self)", "Multiply(self,other)",
			"Multiply(other,self)", "Square(self)", "Negate(self)", "Invert(self)", "CMove(0,self,other)", "CMove(1,self,other)",
			"SqrtRatio(other,7)", "SqrtRatio(self,other)", "FromBytesWithReduce(other)", "FromBytesNoReduce(other)", "HashToFieldElement(other)"} {
			ops = append(ops, c12pOp{n, recv})
		}

		for i := range c12pConsts {
			ops = append(ops, c12pOp{"literal(" + strconv.Itoa(i) + ")", recv}, c12pOp{"Set(const " + strconv.Itoa(i) + ")", recv},
				c12pOp{"CMove(1,self,const " + strconv.Itoa(i) + ")", recv})
		}
	}

	return ops
}

// c12pRun replays one history and returns the first disagreement with the model.
func c12pRun(path []int, ops []c12pOp) (key, detail string) {
	c12pInit()

	e := [2]*field.Element{field.New(), field.New()}
	m := [2]*big.Int{big.NewInt(5), new(big.Int).Set(c12pConsts[4])}

	e[0].Set(feVal(m[0]))
	e[1].Set(feVal(m[1]))

	desc := func(step int) string {
		names := make([]string, 0, len(path))
		for _, i := range path[:step+1] {
			names = append(names, fmt.Sprintf("e%d.%s", ops[i].recv, ops[i].name))
		}

		return "history " + strings.Join(names, "; ")
	}

	for step, oi := range path {
		o := ops[oi]
		r, oth := e[o.recv], e[1-o.recv]
		mv, mo := m[o.recv], m[1-o.recv]

		var want *big.Int

		switch {
		case o.name == "One":
			r.One()
			want = big.NewInt(1)
		case o.name == "Set(other)":
			r.Set(oth)
			want = mo
		case o.name == "assign(other)":
			*r = *oth
			want = mo
		case o.name == "Add(self,other)":
			r.Add(r, oth)
			want = ref.Fp.Add(mv, mo)
		case o.name == "Subtract(other,self)":
			r.Subtract(oth, r)
			want = ref.Fp.Sub(mo, mv)
		case o.name == "Multiply(self,other)":
			r.Multiply(r, oth)
			want = ref.Fp.Mul(mv, mo)
		case o.name == "Multiply(other,self)":
			r.Multiply(oth, r)
			want = ref.Fp.Mul(mv, mo)
		case o.name == "Square(self)":
			r.Square(r)
			want = ref.Fp.Sqr(mv)
		case o.name == "Negate(self)":
			r.Negate(r)
			want = ref.Fp.Neg(mv)
		case o.name == "Invert(self)":
			r.Invert(*r)
			want = ref.Fp.Inv0(mv)
		case o.name == "CMove(0,self,other)":
			r.CMove(0, r, oth)
			want = mv
		case o.name == "CMove(1,self,other)":
			r.CMove(1, r, oth)
			want = mo
		case strings.HasPrefix(o.name, "SqrtRatio"):
			u, v, mu, mvv := oth, feVal(big.NewInt(7)), mo, big.NewInt(7)
			if o.name == "SqrtRatio(self,other)" {
				u, v, mu, mvv = r, oth, mv, mo
			}

			if mvv.Sign() == 0 {
				continue // v = 0 is outside the property
			}

			_, flag := r.SqrtRatio(u, v)
			w := ref.Fp.Mul(mu, ref.Fp.Inv0(mvv))
			target := w

			if !ref.Fp.IsSquare(w) {
				target = ref.Fp.Mul(ref.SSWUZ, w)
			}

			if (flag == 1) != ref.Fp.IsSquare(w) || flag > 1 {
				return "persist/SqrtRatio/wrong-flag", desc(step)
			}

			got := ref.Unmont([4]uint64(r.E), ref.P)
			if ref.Fp.Sqr(got).Cmp(target) != 0 {
				return "persist/SqrtRatio/wrong-root", desc(step)
			}

			want = got // the model follows the root the implementation chose
		case o.name == "FromBytesWithReduce(other)":
			var b [32]byte

			mo.FillBytes(b[:])
			r.FromBytesWithReduce(b)
			want = mo
		case o.name == "FromBytesNoReduce(other)":
			b := make([]byte, 32)
			mo.FillBytes(b)
			r.FromBytesNoReduce(b)
			want = mo
		case o.name == "HashToFieldElement(other)":
			var b [48]byte

			mo.FillBytes(b[:])
			r.HashToFieldElement(b)
			want = mo
		case strings.HasPrefix(o.name, "literal("):
			i, _ := strconv.Atoi(o.name[8 : len(o.name)-1])
			*r = field.Element{E: field.MontgomeryDomainFieldElement(ref.Mont(c12pConsts[i], ref.P))}
			want = c12pConsts[i]
		case strings.HasPrefix(o.name, "Set(const "):
			i, _ := strconv.Atoi(o.name[10 : len(o.name)-1])
			r.Set(feVal(c12pConsts[i]))
			want = c12pConsts[i]
		case strings.HasPrefix(o.name, "CMove(1,self,const "):
			i, _ := strconv.Atoi(o.name[19 : len(o.name)-1])
			r.CMove(1, r, feVal(c12pConsts[i]))
			want = c12pConsts[i]
		default:
			panic("c12persist: unknown op " + o.name)
		}

		m[o.recv] = want

		for k := 0; k < 2; k++ {
			if ok, why := feIs(e[k], m[k]); !ok {
				return "persist/" + o.name + "/element-differs-from-model", fmt.Sprintf("%s: e%d %s", desc(step), k, why)
			}

			// what other operations compute from the element
			two := feVal(big.NewInt(2))

			for _, ob := range []struct {
				n    string
				got  *field.Element
				want *big.Int
			}{
				{"x*x", field.New().Multiply(e[k], e[k]), ref.Fp.Sqr(m[k])},
				{"x^2", field.New().Square(e[k]), ref.Fp.Sqr(m[k])},
				{"2*x", field.New().Multiply(two, e[k]), ref.Fp.Add(m[k], m[k])},
				{"x*2", field.New().Multiply(e[k], two), ref.Fp.Add(m[k], m[k])},
				{"x+x", field.New().Add(e[k], e[k]), ref.Fp.Add(m[k], m[k])},
				{"-x", field.New().Negate(e[k]), ref.Fp.Neg(m[k])},
				{"CMove(1,0,x)", field.New().CMove(1, field.New(), e[k]), m[k]},
			} {
				if ok, why := feIs(ob.got, ob.want); !ok {
					return "persist/" + o.name + "/derived-value-differs-from-model", fmt.Sprintf("%s: %s of e%d: %s", desc(step), ob.n, k, why)
				}
			}

			if e[k].Equals(feVal(m[k])) != 1 || e[k].IsZero() != uint64(b2i(m[k].Sign() == 0)) {
				return "persist/" + o.name + "/predicate-differs-from-model", fmt.Sprintf("%s: e%d", desc(step), k)
			}
		}

		if eq := e[0].Equals(e[1]); (eq == 1) != (m[0].Cmp(m[1]) == 0) {
			return "persist/" + o.name + "/Equals-differs-from-model", desc(step)
		}
	}

	return "", ""
}

func C12persist(r *ev.Report) {
	ops := c12pOps()
	depth := 3

	if ev.Thorough() {
		depth = 4
	}

	r.Rule(fmt.Sprintf("histories on persistent field elements: every sequence of up to %d operations from an alphabet of %d (One, Set, struct assignment, Add, Subtract, Multiply in both operand orders, Square, Negate, Invert, CMove 0/1, SqrtRatio, the three parsers, literals and constants, each on either of two persistent elements with the other as argument); after every step both elements == F_p model (canonical limbs), derived values x*x, x^2, 2x, x*2, x+x, -x, CMove on fresh receivers == model, Equals/IsZero == model", depth, len(ops)))
	r.Bound("operations", len(ops))
	r.Bound("depth", depth)

	n := len(ops)
	top := n * n // shard on the first two choices

	r.ParFor(top, func(_, t int) {
		path := make([]int, 0, depth)
		path = append(path, t/n, t%n)

		var rec func()

		rec = func() {
			r.States.Add(1)
			r.Transitions.Add(1)
			r.Evals.Add(1)

			if len(path) == depth {
				if key, detail := c12pRun(path, ops); key != "" {
					r.Violation(key, detail, Case{"op": "persist12", "path": fmt.Sprint(path)})
				}

				return
			}

			for i := 0; i < n; i++ {
				path = append(path, i)
				rec()
				path = path[:len(path)-1]
			}
		}

		rec()
	})

	r.Distinct.Add(int64(top))
	r.Sample(Case{"op": "persist12", "path": "[0 5 7]"})
}

func init() {
	Parts["C12persist"] = Part{"C12", C12persist}
}
