package checks

import (
	"fmt"
	"math/big"

	secp256k1 "github.com/bytemare/secp256k1"
	"github.com/bytemare/secp256k1/internal/verif/ref"
)

// Bound method values (round 32). `f := s.Bits` binds the receiver when the method value is formed; with the
// pointer receivers of the pinned API the call sees the scalar's CURRENT value, and callers hold such values (a
// deferred argument, a callback, an interface). A read-only method that is given a value receiver ("it only reads")
// silently turns every method value into a snapshot. For every read-only method of Scalar and Element the method
// value is bound first, the object is then mutated in place, and the bound function must describe the value the
// object has NOW - the same as a direct call.

type boundCase struct {
	prop string // property whose operation this is
	name string
	run  func() (got, want string)
}

func boundCases() []boundCase {
	v1 := ref.Mod(ref.OS2IP(fill(32, 2)), ref.N)
	v2 := new(big.Int).Sub(ref.N, big.NewInt(5))

	sc := func(bind func(s *secp256k1.Scalar) func() string) func() (string, string) {
		return func() (string, string) {
			s := newScalar(v1)
			f := bind(s)
			s.Set(newScalar(v2)).Add(newScalar(big.NewInt(2)))
			direct := bind(s)

			return f(), direct()
		}
	}

	g5 := nG(big.NewInt(5))
	h := HPoint()

	el := func(bind func(e *secp256k1.Element) func() string) func() (string, string) {
		return func() (string, string) {
			e := newElement(Rep{g5, big.NewInt(3)})
			f := bind(e)
			e.Set(newElement(Rep{h, big.NewInt(1)})).Double()
			direct := bind(e)

			return f(), direct()
		}
	}

	other := func() *secp256k1.Scalar { return newScalar(new(big.Int).Sub(ref.N, big.NewInt(3))) }
	hd := func() *secp256k1.Element { return newElement(Rep{ref.Secp.Double(h), big.NewInt(2)}) }

	return []boundCase{
		{"C14", "Scalar.Bits", sc(func(s *secp256k1.Scalar) func() string { f := s.Bits; return func() string { return fmt.Sprint(f()) } })},
		{"C07", "Scalar.Encode", sc(func(s *secp256k1.Scalar) func() string {
			f := s.Encode
			return func() string { return fmt.Sprintf("%x", f()) }
		})},
		{"C07", "Scalar.Hex", sc(func(s *secp256k1.Scalar) func() string { f := s.Hex; return func() string { return f() } })},
		{"C07", "Scalar.MarshalBinary", sc(func(s *secp256k1.Scalar) func() string {
			f := s.MarshalBinary
			return func() string { b, err := f(); return fmt.Sprintf("%x %v", b, err) }
		})},
		{"C13", "Scalar.IsZero/IsOne", sc(func(s *secp256k1.Scalar) func() string {
			f, g := s.IsZero, s.IsOne
			return func() string { return fmt.Sprint(f(), g()) }
		})},
		{"C13", "Scalar.Equal/LessOrEqual", sc(func(s *secp256k1.Scalar) func() string {
			f, g := s.Equal, s.LessOrEqual
			return func() string { return fmt.Sprint(f(other()), g(other())) }
		})},
		{"C06", "Scalar.Copy", sc(func(s *secp256k1.Scalar) func() string {
			f := s.Copy
			return func() string { return fmt.Sprintf("%x", f().Encode()) }
		})},
		{"C04", "Element.Encode/EncodeUncompressed/XCoordinate", el(func(e *secp256k1.Element) func() string {
			f, g, x := e.Encode, e.EncodeUncompressed, e.XCoordinate
			return func() string { return fmt.Sprintf("%x %x %x", f(), g(), x()) }
		})},
		{"C04", "Element.Hex/MarshalBinary", el(func(e *secp256k1.Element) func() string {
			f, g := e.Hex, e.MarshalBinary
			return func() string { b, err := g(); return fmt.Sprintf("%s %x %v", f(), b, err) }
		})},
		{"C05", "Element.Equal/IsIdentity", el(func(e *secp256k1.Element) func() string {
			f, g := e.Equal, e.IsIdentity
			return func() string { return fmt.Sprint(f(hd()), g()) }
		})},
		{"C02", "Element.Copy", el(func(e *secp256k1.Element) func() string {
			f := e.Copy
			return func() string { return fmt.Sprintf("%x", f().Encode()) }
		})},
	}
}

// boundMethodViolations runs the cases of one property (C10: all of them).
func boundMethodViolations(prop string, report func(key, detail string, c Case)) int {
	n := 0

	for i, bc := range boundCases() {
		if bc.prop != prop && prop != "C10" {
			continue
		}

		n++

		var got, want string

		if p := catchStr(func() { got, want = bc.run() }); p != "" {
			report("bound-method-value/panic", bc.name+": "+p, Case{"op": "boundmethod", "i": fmt.Sprint(i)})
			continue
		}

		if got != want {
			report("bound-method-value-is-a-snapshot/"+bc.name, fmt.Sprintf("%s: the method value was bound, the object was then changed in place; the bound function returns %.80q, a direct call returns %.80q", bc.name, got, want),
				Case{"op": "boundmethod", "i": fmt.Sprint(i)})
		}
	}

	return n
}

// ReplayBoundMethod re-executes one case.
func ReplayBoundMethod(c Case) (bool, string) {
	var i int
	fmt.Sscan(c["i"], &i)

	cases := boundCases()
	if i < 0 || i >= len(cases) {
		return false, "no such case"
	}

	got, want := cases[i].run()

	return got == want, fmt.Sprintf("%s: bound %.80q direct %.80q", cases[i].name, got, want)
}
