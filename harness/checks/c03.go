package checks

import (
	"bytes"
	"encoding/hex"
	"fmt"
	"math/big"
	"strings"
	"sync"

	secp256k1 "github.com/bytemare/secp256k1"
	"github.com/bytemare/secp256k1/internal/verif/alpha"
	"github.com/bytemare/secp256k1/internal/verif/ev"
	"github.com/bytemare/secp256k1/internal/verif/ref"
)

const errPointEncoding = "invalid point encoding"

type elemDecoder struct {
	name  string
	forms int
	f     func(e *secp256k1.Element, b []byte) error
}

var elemDecoders = []elemDecoder{
	{"Decode", ref.FormAny, (*secp256k1.Element).Decode},
	{"UnmarshalBinary", ref.FormAny, (*secp256k1.Element).UnmarshalBinary},
	{"DecodeHex", ref.FormAny, func(e *secp256k1.Element, b []byte) error {
		// lower case on the receiver, upper case on a copy of it: both must agree
		up := e.Copy()
		errU := up.DecodeHex(strings.ToUpper(hex.EncodeToString(b)))
		errL := e.DecodeHex(hex.EncodeToString(b))

		if (errU == nil) != (errL == nil) || rawOf(up) != rawOf(e) {
			panic(fmt.Sprintf("DecodeHex depends on the case of the hexadecimal digits: lower %v, upper %v", errL, errU))
		}

		return errL
	}},
	{"DecodeCompressed", ref.FormCompressed, (*secp256k1.Element).DecodeCompressed},
	{"DecodeUncompressed", ref.FormUncompressed, (*secp256k1.Element).DecodeUncompressed},
}

// rejection classes, for outcome counting and violation keys
func c03Class(b []byte, forms int) string {
	switch len(b) {
	case 1:
		if forms&ref.FormIdentity == 0 {
			return "wrong-form"
		}

		if b[0] == 0 {
			return "identity"
		}

		return "bad-identity-byte"
	case 33:
		if forms&ref.FormCompressed == 0 {
			return "wrong-form"
		}

		if b[0] != 2 && b[0] != 3 {
			return "bad-prefix"
		}

		x := ref.OS2IP(b[1:])
		if x.Cmp(ref.P) >= 0 {
			return "x>=p"
		}

		if !ref.Fp.IsSquare(ref.Secp.RHS(x)) {
			return "x-not-on-curve"
		}

		return "compressed"
	case 65:
		if forms&ref.FormUncompressed == 0 {
			return "wrong-form"
		}

		if b[0] != 4 {
			return "bad-prefix"
		}

		return c03CoordClass(b[1:33], b[33:])
	}

	return "bad-length"
}

func c03CoordClass(xb, yb []byte) string {
	x, y := ref.OS2IP(xb), ref.OS2IP(yb)

	switch {
	case x.Cmp(ref.P) >= 0:
		return "x>=p"
	case y.Cmp(ref.P) >= 0:
		return "y>=p"
	case !ref.Secp.On(ref.Pt{X: x, Y: y}):
		return "off-curve"
	}

	return "uncompressed"
}

func c03Receiver(which int) *secp256k1.Element {
	if which == 0 {
		return secp256k1.NewElement()
	}

	// a representation whose twelve limbs are all dense: a decoder that overwrites only part of a coordinate
	// (say, sets the low limb of Z to the Montgomery form of 1 and forgets to clear the others) leaves a trace
	c03PriorOnce.Do(func() {
		c03Prior = Rep{HPoint(), ref.Mod(alpha.Fixed(1, "c03-prior-receiver")[0], ref.P)}
	})

	return newElement(c03Prior)
}

var (
	c03PriorOnce sync.Once
	c03Prior     Rep
)

// c03Case presents b to decoder di (5 = DecodeCoordinates on b[1:33], b[33:65]) with receiver `which`.
//
// scratch, when non-nil, is a long-lived caller buffer that the input is written into before the call (the caller
// "reuses its read buffer"): consecutive calls then see the same backing array with different contents, so a
// decoder that remembers anything by slice identity would return stale results.
func c03Case(di int, b []byte, which int, scratch []byte) (key, detail, class string) {
	e := c03Receiver(which)
	before := rawOf(e)
	in := append([]byte{}, b...)

	if scratch != nil && len(b) <= len(scratch) {
		in = scratch[:copy(scratch, b)]
	}

	var (
		err  error
		name string
		want ref.Pt
		ok   bool
	)

	if di == 5 {
		name = "DecodeCoordinates"
		class = c03CoordClass(b[1:33], b[33:])
		want, ok = ref.DecCoordinates(b[1:33], b[33:])

		if p := catchStr(func() { err = e.DecodeCoordinates([32]byte(in[1:33]), [32]byte(in[33:])) }); p != "" {
			return name + "/panic", fmt.Sprintf("input %x: %s", b, p), class
		}
	} else {
		d := elemDecoders[di]
		name = d.name
		class = c03Class(b, d.forms)
		want, ok = ref.Dec(b, d.forms)

		if p := catchStr(func() { err = d.f(e, in) }); p != "" {
			return name + "/panic", fmt.Sprintf("input %x: %s", b, p), class
		}
	}

	if !bytes.Equal(in, b) {
		return name + "/input-modified", fmt.Sprintf("input %x", b), class
	}

	if !ok {
		if err == nil {
			return name + "/accepted-invalid/" + class, fmt.Sprintf("input %x accepted (receiver %d)", b, which), class
		}

		if err.Error() != errPointEncoding {
			return name + "/wrong-error", fmt.Sprintf("input %x: %q", b, err), class
		}

		if rawOf(e) != before {
			return name + "/receiver-changed-on-error/" + class, fmt.Sprintf("input %x (receiver %d)", b, which), class
		}

		return "", "", class
	}

	if err != nil {
		return name + "/rejected-valid/" + class, fmt.Sprintf("input %x: %v", b, err), class
	}

	if ok, why := elementIs(e, want); !ok {
		return name + "/wrong-point/" + class, fmt.Sprintf("input %x (receiver %d): %s", b, which, why), class
	}

	return "", "", class
}

func c03PolyCase(x *big.Int, aliased bool) (key, detail string) {
	fx, fy := feVal(x), feVal(big.NewInt(5))
	before := fx.E

	if aliased {
		fy = fx
	}

	if p := catchStr(func() { secp256k1.Secp256Polynomial(fy, fx) }); p != "" {
		return "Secp256Polynomial/panic", fmt.Sprintf("x=%x: %s", x, p)
	}

	want := ref.Fp.Add(ref.Fp.Mul(ref.Fp.Sqr(x), x), big.NewInt(7))
	if ok, why := feIs(fy, want); !ok {
		return "Secp256Polynomial/wrong-value", fmt.Sprintf("x=%x aliased=%v: %s", x, aliased, why)
	}

	if !aliased && fx.E != before {
		return "Secp256Polynomial/argument-changed", fmt.Sprintf("x=%x", x)
	}

	return "", ""
}

func isHexDigit(c byte) bool {
	return c >= '0' && c <= '9' || c >= 'a' && c <= 'f' || c >= 'A' && c <= 'F'
}

func c03HexMalformed(h string, which int) (key, detail string) {
	e := c03Receiver(which)
	before := rawOf(e)

	var err error

	if p := catchStr(func() { err = e.DecodeHex(h) }); p != "" {
		return "DecodeHex/panic", fmt.Sprintf("input %q: %s", h, p)
	}

	if err == nil {
		return "DecodeHex/accepted-malformed-hex", fmt.Sprintf("input %q", h)
	}

	if rawOf(e) != before {
		return "DecodeHex/receiver-changed-on-error", fmt.Sprintf("input %q", h)
	}

	return "", ""
}

func c03XAlphabet(level int) []*big.Int {
	set := map[string]*big.Int{}
	add := func(v *big.Int) {
		if v.Sign() >= 0 && v.BitLen() <= 256 {
			set[v.Text(16)] = v
		}
	}

	for _, s := range alpha.Strings256(ref.P, level) {
		add(s)
	}

	w := int64(48)
	if level >= 1 {
		w = 1 << 10
	}

	for d := -w; d <= w; d++ {
		add(new(big.Int).Add(ref.P, big.NewInt(d)))
	}

	for d := int64(0); d <= w; d++ {
		add(big.NewInt(d))
		add(new(big.Int).Sub(ref.Two256(), big.NewInt(d+1)))
	}

	for _, np := range Points() {
		if np.P.Inf {
			continue
		}

		add(np.P.X)
		add(new(big.Int).Add(np.P.X, ref.P)) // alias x+p (dropped when it does not fit 256 bits)
		add(np.P.Y)                          // mostly off-curve abscissae
	}

	out := make([]*big.Int, 0, len(set))
	for _, v := range set {
		out = append(out, v)
	}

	return out
}

func c03Strings(level int) [][]byte {
	var out [][]byte

	add := func(b []byte) { out = append(out, b) }

	prefixes := make([]byte, 256)
	for i := range prefixes {
		prefixes[i] = byte(i)
	}

	g := ref.G()

	// all lengths, several fills
	for l := 0; l <= 70; l++ {
		if l == 33 || l == 65 {
			continue
		}

		for _, first := range []byte{0, 2, 3, 4, 0xff} {
			b := bytes.Repeat([]byte{0xff}, l)
			if l > 0 {
				b[0] = first
			}

			add(b)
			add(make([]byte, l))

			// valid encodings truncated or extended to this length
			for _, v := range [][]byte{ref.Enc(g), ref.EncUncompressed(g), {0}} {
				c := make([]byte, l)
				copy(c, v)
				add(c)
			}
		}
	}

	add(nil)

	// lengths that are 1, 33 or 65 modulo 2^8 or 2^16 (a length carried in a narrow integer would wrap), and neighbours
	for _, l := range []int{255, 256, 257, 288, 289, 290, 320, 321, 322, 65536, 65537, 65569, 65601} {
		for _, v := range [][]byte{ref.Enc(g), ref.EncUncompressed(g), {0}} {
			b := make([]byte, l)
			copy(b, v)
			add(b)
		}
	}

	for _, p := range prefixes {
		add([]byte{p})
	}

	// 33 bytes: every prefix x every x of the alphabet
	for _, x := range c03XAlphabet(level) {
		xb := ref.Bytes32(x)
		for _, p := range prefixes {
			add(append([]byte{p}, xb...))
		}
	}

	// 65 bytes: every prefix x coordinate pairs around every point
	one := big.NewInt(1)

	var pairs [][2]*big.Int

	for _, np := range Points() {
		if np.P.Inf {
			continue
		}

		x, y := np.P.X, np.P.Y
		ny := ref.Fp.Neg(y)
		pairs = append(pairs, [2]*big.Int{x, y}, [2]*big.Int{x, ny}, [2]*big.Int{x, new(big.Int).Add(y, one)},
			[2]*big.Int{new(big.Int).Add(x, one), y}, [2]*big.Int{y, x}, [2]*big.Int{x, big.NewInt(0)}, [2]*big.Int{big.NewInt(0), y},
			[2]*big.Int{new(big.Int).Add(x, ref.P), y}, [2]*big.Int{x, new(big.Int).Add(y, ref.P)},
			[2]*big.Int{new(big.Int).Add(x, ref.P), new(big.Int).Add(y, ref.P)}, [2]*big.Int{x, ref.P}, [2]*big.Int{ref.P, y})
	}

	strs := alpha.Strings256(ref.P, 0)
	for i := 0; i < len(strs); i += 7 {
		pairs = append(pairs, [2]*big.Int{strs[i], strs[(i*3+1)%len(strs)]})
	}

	pairs = append(pairs, [2]*big.Int{big.NewInt(0), big.NewInt(0)}, [2]*big.Int{big.NewInt(0), big.NewInt(1)})

	for _, xy := range pairs {
		if xy[0].BitLen() > 256 || xy[1].BitLen() > 256 {
			continue
		}

		body := append(ref.Bytes32(xy[0]), ref.Bytes32(xy[1])...)
		for _, p := range prefixes {
			add(append([]byte{p}, body...))
		}
	}

	return out
}

// C03real checks the element decoders on the byte-string alphabet of the real field.
func C03real(r *ev.Report) {
	level := 0
	if ev.Thorough() {
		level = 2
	}

	strs := c03Strings(level)
	r.Rule("real field: every string of the alphabet (all lengths 0..70 x fills; 33 bytes = all 256 prefixes x x-alphabet of limb products, window around p, 0.., 2^256-.., abscissae of the point alphabet and their aliases x+p; 65 bytes = all 256 prefixes x coordinate pairs around every alphabet point incl. y+p, x+p aliases, wrong root, swapped, zero) x {Decode, UnmarshalBinary, DecodeHex, DecodeCompressed, DecodeUncompressed, DecodeCoordinates} x 2 prior receivers; oracle = SEC1 acceptance predicate in math/big; non-trivial = string of length 33 or 65 with a form prefix")
	r.Bound("strings", len(strs))
	r.States.Add(int64(len(strs)))

	scratch := make([][]byte, ev.Workers()+1)
	for i := range scratch {
		scratch[i] = make([]byte, 96)
	}

	r.ParFor(len(strs), func(w, i int) {
		b := strs[i]
		nd := len(elemDecoders)

		if len(b) == 65 {
			nd++
		}

		counts := map[string]int64{}

		for di := 0; di < nd; di++ {
			for which := 0; which < 2; which++ {
				r.Transitions.Add(1)
				r.Evals.Add(1)

				var sc []byte
				if which == 1 {
					sc = scratch[w]
				}

				key, detail, class := c03Case(di, b, which, sc)
				if which == 0 && (di == 0 || di == 5) {
					counts[fmt.Sprintf("d%d_%s", di, class)]++
				}

				if key != "" {
					r.Violation(key, detail, Case{"op": "decode", "decoder": fmt.Sprint(di), "input": hb(b), "receiver": fmt.Sprint(which)})
				}
			}
		}

		if (len(b) == 33 && (b[0] == 2 || b[0] == 3)) || (len(b) == 65 && b[0] == 4) {
			r.Distinct.Add(1)
		}

		r.Merge(counts)
	})

	// the curve polynomial that decompression and the on-curve test evaluate, directly on V_p (y and x distinct objects, as every caller has them)
	poly := alpha.WithWitnesses(alpha.Values(ref.P, 0), ref.P)
	r.Bound("polynomial_values", len(poly))

	r.ParFor(len(poly), func(_, i int) {
		for _, aliased := range []bool{false} { // y = x is not alias-safe (x is squared in place first); no property or caller asks for it
			r.Transitions.Add(1)
			r.Evals.Add(1)

			if key, detail := c03PolyCase(poly[i].V, aliased); key != "" {
				r.Violation(key, detail, Case{"op": "poly", "x": hx(poly[i].V), "aliased": fmt.Sprint(aliased)})
			}
		}
	})

	good := hex.EncodeToString(ref.Enc(ref.G()))
	bad := []string{good[:65], good + "0", "0x" + good[2:], "g" + good[1:], good[:31] + "z" + good[32:], strings.Repeat("zz", 33), "0", "zz", "0g"}

	// every byte value that is not a hexadecimal digit, at the first, second, middle and last two positions of
	// valid compressed, uncompressed and identity encodings (a hand-written digit test is wrong for single bytes)
	for _, g := range []string{good, hex.EncodeToString(ref.EncUncompressed(ref.G())), "00"} {
		for _, pos := range []int{0, 1, len(g) / 2, len(g) - 2, len(g) - 1} {
			for c := 0; c < 256; c++ {
				if isHexDigit(byte(c)) {
					continue
				}

				bad = append(bad, g[:pos]+string([]byte{byte(c)})+g[pos+1:])
			}
		}
	}

	for _, h := range bad {
		for which := 0; which < 2; which++ {
			r.Transitions.Add(1)
			r.Evals.Add(1)
			r.Count("malformed_hex", 1)

			if key, detail := c03HexMalformed(h, which); key != "" {
				r.Violation(key, detail, Case{"op": "hex", "h": h, "receiver": fmt.Sprint(which)})
			}
		}
	}

	r.Sample(Case{"op": "decode", "decoder": "0", "input": hb(ref.Enc(ref.G())), "receiver": "1"})
	r.Sample(Case{"op": "decode", "decoder": "0", "input": hb(append([]byte{2}, ref.Bytes32(ref.P)...)), "receiver": "0"})
	r.RequireNonVacuous("d0_identity", "d0_compressed", "d0_uncompressed", "d0_bad-length", "d0_bad-prefix", "d0_x>=p", "d0_y>=p",
		"d0_x-not-on-curve", "d0_off-curve", "d0_bad-identity-byte", "d5_uncompressed", "d5_y>=p", "d5_x>=p", "d5_off-curve")
}

func init() {
	Parts["C03real"] = Part{"C03", C03real}
	Replayers["C03"] = func(c Case) (bool, string) {
		switch c["op"] {
		case "bin", "equals", "unary", "predicate", "neighbour", "sqrt", "parse", "wide":
			return Replayers["C12"](c)
		}

		var which int
		fmt.Sscan(c["receiver"], &which)

		if c["op"] == "poly" {
			key, detail := c03PolyCase(unhx(c["x"]), c["aliased"] == "true")
			return key == "", key + " " + detail
		}

		if c["op"] == "hex" {
			key, detail := c03HexMalformed(c["h"], which)
			return key == "", key + " " + detail
		}

		var di int
		fmt.Sscan(c["decoder"], &di)
		key, detail, _ := c03Case(di, unhb(c["input"]), which, nil)

		return key == "", key + " " + detail
	}
}
