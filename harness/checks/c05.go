package checks

import (
	"fmt"

	"github.com/bytemare/secp256k1/internal/verif/ev"
	"github.com/bytemare/secp256k1/internal/verif/ref"
)

func c05Case(a, b Rep) (key, detail string) {
	ea, eb := newElement(a), newElement(b)
	ra, rb := rawOf(ea), rawOf(eb)
	want := b2i(a.P.Eq(b.P))
	desc := fmt.Sprintf("A=%s lambdaA=%x B=%s lambdaB=%x", ptStr(a.P), a.L, ptStr(b.P), b.L)

	class := "different-points"

	switch {
	case want == 1:
		class = "same-element"
	case a.P.Inf || b.P.Inf:
		class = "identity-vs-point"
	case a.P.X.Cmp(b.P.X) == 0:
		class = "same-x"
	case a.P.Y.Cmp(b.P.Y) == 0:
		class = "same-y"
	}

	if got := ea.Equal(eb); got != want {
		return "Equal/wrong/" + class, fmt.Sprintf("%s Equal=%d", desc, got)
	}

	if got := eb.Equal(ea); got != want {
		return "Equal/not-symmetric/" + class, fmt.Sprintf("%s Equal(B,A)=%d", desc, got)
	}

	if got := ea.IsIdentity(); got != a.P.Inf {
		return "IsIdentity/wrong", fmt.Sprintf("%s IsIdentity(A)=%v", desc, got)
	}

	if rawOf(ea) != ra || rawOf(eb) != rb {
		return "Equal/operand-changed", desc
	}

	return "", ""
}

// C05real checks Equal / IsIdentity on all ordered pairs of the representation alphabet of the real curve.
func C05real(r *ev.Report) {
	reps := Reps(0)
	r.Rule("real curve: Equal (both orders) and IsIdentity on all ordered pairs of (point alphabet x all scalings); the alphabet contains P/-P (same x), P/beta*P/beta^2*P (same y) and every identity representation; non-trivial = same element in different scalings, or different points sharing a coordinate")
	r.Bound("representations", len(reps))
	r.States.Add(int64(len(reps)))

	r.ParFor(len(reps), func(_, i int) {
		a := reps[i]

		for _, b := range reps {
			r.Transitions.Add(3)
			r.Evals.Add(1)

			switch {
			case a.P.Eq(b.P) && a.L.Cmp(b.L) != 0:
				r.Count("same_element_different_scaling", 1)
				r.Distinct.Add(1)
			case a.P.Eq(b.P):
			case a.P.Inf || b.P.Inf:
				r.Count("identity_vs_point", 1)
			case a.P.X.Cmp(b.P.X) == 0:
				r.Count("same_x", 1)
				r.Distinct.Add(1)
			case a.P.Y.Cmp(b.P.Y) == 0:
				r.Count("same_y", 1)
				r.Distinct.Add(1)
			}

			if key, detail := c05Case(a.Rep, b.Rep); key != "" {
				c := Case{"op": "Equal"}
				repCase("a", a.Rep, c)
				repCase("b", b.Rep, c)
				r.Violation(key, detail, c)
			}
		}
	})

	// coordinate-pattern representations against a few partners (same point in another scaling, -P, other points)
	ext := CoordPatternReps()
	r.Bound("coordinate_pattern_representations", len(ext))

	r.ParFor(len(ext), func(_, i int) {
		a := ext[i]
		partners := []Rep{{a.P, ref.I(1)}, {a.P, ref.I(7)}, {ref.Secp.Neg(a.P), ref.I(1)}, {ref.Infinity(), ref.I(3)}, {ref.Secp.Double(a.P), ref.I(2)}, ext[(i+1)%len(ext)], ext[(i+4)%len(ext)]}

		for _, b := range partners {
			for _, pair := range [][2]Rep{{a, b}, {b, a}} {
				r.Transitions.Add(3)
				r.Evals.Add(1)

				if key, detail := c05Case(pair[0], pair[1]); key != "" {
					c := Case{"op": "Equal"}
					repCase("a", pair[0], c)
					repCase("b", pair[1], c)
					r.Violation(key, detail, c)
				}
			}
		}
	})

	c := Case{"op": "Equal"}
	repCase("a", reps[8].Rep, c)
	repCase("b", reps[15].Rep, c)
	r.Sample(c)
	r.RequireNonVacuous("same_element_different_scaling", "identity_vs_point", "same_x", "same_y")
	_ = ref.P
}

func init() {
	Parts["C05real"] = Part{"C05", C05real}
	Replayers["C05"] = func(c Case) (bool, string) {
		switch c["op"] {
		case "bin", "equals", "unary", "predicate", "neighbour", "sqrt", "parse", "wide":
			return Replayers["C12"](c)
		}

		if c["op"] == "persist" {
			return Replayers["C10"](c)
		}

		key, detail := c05Case(repFromCase("a", c), repFromCase("b", c))
		return key == "", key + " " + detail
	}
}
