package checks

import (
	"bytes"
	"fmt"
	"math/big"

	secp256k1 "github.com/bytemare/secp256k1"
	"github.com/bytemare/secp256k1/internal/verif/alpha"
	"github.com/bytemare/secp256k1/internal/verif/ev"
	"github.com/bytemare/secp256k1/internal/verif/ref"
)

// mulTable holds 2^i * P for i in 0..255, so that the oracle's [k]P costs popcount(k) affine additions.
type mulTable [256]ref.Pt

func newMulTable(p ref.Pt) *mulTable {
	var t mulTable

	t[0] = p
	for i := 1; i < 256; i++ {
		t[i] = ref.Secp.Double(t[i-1])
	}

	return &t
}

func (t *mulTable) mul(k *big.Int) ref.Pt {
	acc := ref.Infinity()

	for i := 0; i < k.BitLen(); i++ {
		if k.Bit(i) == 1 {
			acc = ref.Secp.Add(acc, t[i])
		}
	}

	return acc
}

// c01Case: P in representation rep, scalar k (nil when k == nil); want is the oracle's [k]P.
func c01Case(rep Rep, k *big.Int, want ref.Pt) (key, detail string) {
	e := newElement(rep)

	var s *secp256k1.Scalar
	if k != nil {
		s = newScalar(k)
	}

	var ret *secp256k1.Element

	if p := catchStr(func() { ret = e.Multiply(s) }); p != "" {
		return "Multiply/panic", p
	}

	desc := func() string {
		ks := "nil"
		if k != nil {
			ks = hx(k)
		}

		return fmt.Sprintf("P=%s lambda=%x k=%s", ptStr(rep.P), rep.L, ks)
	}

	if ret != e {
		return "Multiply/returns-other-pointer", desc()
	}

	if ok, why := elementIs(e, want); !ok {
		class := "k<2^255"
		if k != nil && k.Bit(255) == 1 {
			class = "k>=2^255"
		}

		if k == nil {
			class = "nil"
		}

		return "Multiply/wrong-result/" + class, desc() + ": " + why
	}

	if s != nil && s.S != ref.Mont(k, ref.N) {
		return "Multiply/scalar-changed", desc()
	}

	return "", ""
}

// c01ChainCase compares Multiply(k) for k = 0..max with the literal k-fold Add chain run on the implementation
// (the property's own wording), in representation rep.
func c01ChainCase(rep Rep, max int) (key, detail string, n int) {
	acc := secp256k1.NewElement()
	p := newElement(rep)

	for k := 0; k <= max; k++ {
		m := newElement(rep).Multiply(newScalar(big.NewInt(int64(k))))
		n++

		if !bytes.Equal(m.Encode(), acc.Encode()) || m.Equal(acc) != 1 {
			return "Multiply/differs-from-k-fold-sum", fmt.Sprintf("P=%s lambda=%x k=%d: Multiply=%x sum=%x", ptStr(rep.P), rep.L, k, m.Encode(), acc.Encode()), n
		}

		acc.Add(p)
	}

	return "", "", n
}

// C01real checks Multiply on (point alphabet x scalings) x scalar alphabet of the real curve.
func C01real(r *ev.Report) {
	level, nLam, chain := 0, 2, 300
	if ev.Thorough() {
		level, nLam, chain = 1, 4, 1024
	}

	ks := alpha.Scalars(level)
	pts := Points()
	reps := Reps(nLam)

	r.Rule("real curve: Multiply for every (point alphabet x scalings) x scalar alphabet K (0..small, n-1-j, all 2^i, 2^i+-1, n-1-2^i, around n/2 and 2^255, limb products); oracle = sum of precomputed 2^i P in the affine math/big model; plus Multiply(k) against the literal k-fold Add chain on the implementation for k <= chain bound; nil scalar; non-trivial = k >= 2^64")
	r.Bound("scalars", len(ks))
	r.Bound("representations", len(reps))
	r.Bound("chain_bound", chain)

	tables := make([]*mulTable, len(pts))
	r.ParFor(len(pts), func(_, i int) { tables[i] = newMulTable(pts[i].P) })

	// expected results per (point, k), computed once and shared by the scalings
	type job struct{ pi, ki int }

	r.ParFor(len(pts)*len(ks), func(_, j int) {
		pi, ki := j/len(ks), j%len(ks)
		k := ks[ki]
		want := tables[pi].mul(k)

		for _, rep := range reps {
			if rep.Pi != pi {
				continue
			}

			r.Transitions.Add(1)
			r.Evals.Add(1)

			if k.BitLen() > 64 {
				r.Distinct.Add(1)
			}

			if key, detail := c01Case(rep.Rep, k, want); key != "" {
				c := Case{"op": "Multiply", "k": hx(k)}
				repCase("p", rep.Rep, c)
				r.Violation(key, detail, c)
			}
		}

		if k.Bit(255) == 1 {
			r.Count("scalar_bit255_set", 1)
		}

		if want.Inf {
			r.Count("result_identity", 1)
		}
	})

	r.States.Add(int64(len(reps) * len(ks)))

	// nil scalar and chain
	r.ParFor(len(reps), func(_, i int) {
		rep := reps[i]
		r.Transitions.Add(1)
		r.Evals.Add(1)

		if key, detail := c01Case(rep.Rep, nil, ref.Infinity()); key != "" {
			c := Case{"op": "Multiply", "k": "nil"}
			repCase("p", rep.Rep, c)
			r.Violation(key, detail, c)
		}

		if i%len(reps) < 0 {
			return
		}

		key, detail, n := c01ChainCase(rep.Rep, chain)
		r.Transitions.Add(int64(2 * n))
		r.Evals.Add(int64(n))

		if key != "" {
			c := Case{"op": "chain", "max": fmt.Sprint(chain)}
			repCase("p", rep.Rep, c)
			r.Violation(key, detail, c)
		}
	})

	c := Case{"op": "Multiply", "k": hx(new(big.Int).Sub(ref.N, big.NewInt(1)))}
	repCase("p", reps[3].Rep, c)
	r.Sample(c)
	r.RequireNonVacuous("scalar_bit255_set", "result_identity")
}

func init() {
	Parts["C01real"] = Part{"C01", C01real}
	Replayers["C01"] = func(c Case) (bool, string) {
		if c["op"] == "persist" {
			return Replayers["C10"](c)
		}

		rep := repFromCase("p", c)

		if c["op"] == "chain" {
			var max int
			fmt.Sscan(c["max"], &max)
			key, detail, _ := c01ChainCase(rep, max)

			return key == "", key + " " + detail
		}

		var (
			k    *big.Int
			want = ref.Infinity()
		)

		if c["k"] != "nil" {
			k = unhx(c["k"])
			want = ref.Secp.Mul(k, rep.P)
		}

		key, detail := c01Case(rep, k, want)

		return key == "", key + " " + detail
	}
}
