package checks

import (
	"bytes"
	"fmt"
	"math/big"

	secp256k1 "github.com/bytemare/secp256k1"
	"github.com/bytemare/secp256k1/internal/verif/alpha"
	"github.com/bytemare/secp256k1/internal/verif/ev"
	"github.com/bytemare/secp256k1/internal/verif/ref"
)

// mulTable holds 2^i * P for i in 0..255, so that the oracle's [k]P costs popcount(k) affine additions.
type mulTable [256]ref.Pt

func newMulTable(p ref.Pt) *mulTable {
	var t mulTable

	t[0] = p
	for i := 1; i < 256; i++ {
		t[i] = ref.Secp.Double(t[i-1])
	}

	return &t
}

func (t *mulTable) mul(k *big.Int) ref.Pt {
	acc := ref.Infinity()

	for i := 0; i < k.BitLen(); i++ {
		if k.Bit(i) == 1 {
			acc = ref.Secp.Add(acc, t[i])
		}
	}

	return acc
}

// c01Case: P in representation rep, scalar k (nil when k == nil); want is the oracle's [k]P.
func c01Case(rep Rep, k *big.Int, want ref.Pt) (key, detail string) {
	e := newElement(rep)

	var s *secp256k1.Scalar
	if k != nil {
		s = newScalar(k)
	}

	var ret *secp256k1.Element

	if p := catchStr(func() { ret = e.Multiply(s) }); p != "" {
		return "Multiply/panic", p
	}

	desc := func() string {
		ks := "nil"
		if k != nil {
			ks = hx(k)
		}

		return fmt.Sprintf("P=%s lambda=%x k=%s", ptStr(rep.P), rep.L, ks)
	}

	if ret != e {
		return "Multiply/returns-other-pointer", desc()
	}

	if ok, why := elementIs(e, want); !ok {
		class := "k<2^255"
		if k != nil && k.Bit(255) == 1 {
			class = "k>=2^255"
		}

		if k == nil {
			class = "nil"
		}

		return "Multiply/wrong-result/" + class, desc() + ": " + why
	}

	if s != nil && s.S != ref.Mont(k, ref.N) {
		return "Multiply/scalar-changed", desc()
	}

	return "", ""
}

// c01ChainCase compares Multiply(k) for k = 0..max with the literal k-fold Add chain run on the implementation
// (the property's own wording), in representation rep.
func c01ChainCase(rep Rep, max int) (key, detail string, n int) {
	acc := secp256k1.NewElement()
	p := newElement(rep)

	for k := 0; k <= max; k++ {
		m := newElement(rep).Multiply(newScalar(big.NewInt(int64(k))))
		n++

		if !bytes.Equal(m.Encode(), acc.Encode()) || m.Equal(acc) != 1 {
			return "Multiply/differs-from-k-fold-sum", fmt.Sprintf("P=%s lambda=%x k=%d: Multiply=%x sum=%x", ptStr(rep.P), rep.L, k, m.Encode(), acc.Encode()), n
		}

		acc.Add(p)
	}

	return "", "", n
}

// ladderSteeredReps returns scalings of G chosen so that an INTERMEDIATE of the ladder, not just its input, sits at
// a carry boundary of the multiplication by 3b: when the top bit of the scalar is set the ladder's first step is
// O + P, whose output (for the complete formulas: homogeneous of degree 2 in P's coordinates) is doubled next, and
// that doubling multiplies Z'^2 by 3b. lambda is solved (two square roots) so that the stored limbs of Z'^2 are
// floor(k * 2^256 / 21) + {-2^20, -1}. The Z' for lambda = 1 is obtained by running the library's own Add once; if
// the implementation's first steps are different the points are simply ordinary scalings - harmless.
func ladderSteeredReps() []Rep {
	g := ref.G()
	probe := secp256k1.NewElement().Add(newElement(Rep{g, big.NewInt(1)}))
	_, _, zr := secp256k1.VerifRaw(probe)

	if !canonicalLimbs(zr, pLimbs) {
		return nil
	}

	z1 := ref.Unmont(zr, ref.P)
	if z1.Sign() == 0 {
		return nil
	}

	qrRoot := func(v *big.Int) *big.Int { // the square root that is itself a square (p = 3 mod 4), or nil
		r := ref.Fp.Sqrt(v)
		if r == nil || ref.Fp.Sqr(r).Cmp(ref.Mod(v, ref.P)) != 0 {
			return nil
		}

		if !ref.Fp.IsSquare(r) {
			r = ref.Fp.Neg(r)
		}

		return r
	}

	var out []Rep

	for k := int64(1); k < 21; k++ {
		base := new(big.Int).Div(new(big.Int).Mul(big.NewInt(k), ref.Two256()), big.NewInt(21))

		for _, d := range []int64{-(1 << 20), -1} {
			pat := new(big.Int).Add(base, big.NewInt(d))
			if pat.Cmp(ref.P) >= 0 {
				continue
			}

			want := ref.Unmont(ref.Limbs(pat), ref.P)           // value of Z'^2
			l4 := ref.Fp.Mul(want, ref.Fp.Inv0(ref.Fp.Sqr(z1))) // lambda^4 (Z' = lambda^2 * z1, so Z'^2 = lambda^4 * z1^2)

			if !ref.Fp.IsSquare(l4) {
				continue
			}

			l2 := qrRoot(l4)
			if l2 == nil {
				continue
			}

			l := ref.Fp.Sqrt(l2)
			if l == nil || l.Sign() == 0 || ref.Fp.Sqr(l).Cmp(l2) != 0 {
				continue
			}

			out = append(out, Rep{g, l})
		}
	}

	return out
}

// C01real checks Multiply on (point alphabet x scalings) x scalar alphabet of the real curve.
func C01real(r *ev.Report) {
	level, nLam, chain := 0, 2, 300
	if ev.Thorough() {
		level, nLam, chain = 1, 4, 1024
	}

	ks := alpha.Scalars(level)
	pts := Points()
	reps := Reps(nLam)

	r.Rule("real curve: Multiply for every (point alphabet x scalings) x scalar alphabet K (0..small, n-1-j, all 2^i, 2^i+-1, n-1-2^i, around n/2 and 2^255, limb products); oracle = sum of precomputed 2^i P in the affine math/big model; plus every window digit (widths 4..8, every value, every position, adjacent digits around the signed-recoding threshold) and the endomorphism-degenerate scalars +-d*b/2^i, b in {lambda, lambda^2, 1-lambda, 1-lambda^2}, on G and H; plus Multiply(k) against the literal k-fold Add chain on the implementation for k <= chain bound; nil scalar; non-trivial = k >= 2^64")
	r.Bound("scalars", len(ks))
	r.Bound("representations", len(reps))
	r.Bound("chain_bound", chain)

	tables := make([]*mulTable, len(pts))
	r.ParFor(len(pts), func(_, i int) { tables[i] = newMulTable(pts[i].P) })

	// expected results per (point, k), computed once and shared by the scalings
	type job struct{ pi, ki int }

	r.ParFor(len(pts)*len(ks), func(_, j int) {
		pi, ki := j/len(ks), j%len(ks)
		k := ks[ki]
		want := tables[pi].mul(k)

		for _, rep := range reps {
			if rep.Pi != pi {
				continue
			}

			r.Transitions.Add(1)
			r.Evals.Add(1)

			if k.BitLen() > 64 {
				r.Distinct.Add(1)
			}

			if key, detail := c01Case(rep.Rep, k, want); key != "" {
				c := Case{"op": "Multiply", "k": hx(k)}
				repCase("p", rep.Rep, c)
				r.Violation(key, detail, c)
			}
		}

		if k.Bit(255) == 1 {
			r.Count("scalar_bit255_set", 1)
		}

		if want.Inf {
			r.Count("result_identity", 1)
		}
	})

	r.States.Add(int64(len(reps) * len(ks)))

	// nil scalar and chain
	r.ParFor(len(reps), func(_, i int) {
		rep := reps[i]
		r.Transitions.Add(1)
		r.Evals.Add(1)

		if key, detail := c01Case(rep.Rep, nil, ref.Infinity()); key != "" {
			c := Case{"op": "Multiply", "k": "nil"}
			repCase("p", rep.Rep, c)
			r.Violation(key, detail, c)
		}

		if i%len(reps) < 0 {
			return
		}

		key, detail, n := c01ChainCase(rep.Rep, chain)
		r.Transitions.Add(int64(2 * n))
		r.Evals.Add(int64(n))

		if key != "" {
			c := Case{"op": "chain", "max": fmt.Sprint(chain)}
			repCase("p", rep.Rep, c)
			r.Violation(key, detail, c)
		}
	})

	// coordinate-pattern and constant-multiplication-boundary representations with a short scalar list
	ext := append(CoordPatternReps(), ConstMulBoundaryReps()...)
	steered := ladderSteeredReps()
	ext = append(ext, steered...)
	r.Bound("ladder_steered_representations", len(steered))
	short := []*big.Int{big.NewInt(0), big.NewInt(2), big.NewInt(3), big.NewInt(5), new(big.Int).Sub(ref.N, big.NewInt(1)), new(big.Int).Lsh(big.NewInt(1), 255),
		new(big.Int).Add(new(big.Int).Lsh(big.NewInt(1), 255), big.NewInt(12345)), new(big.Int).Lsh(big.NewInt(3), 254), new(big.Int).Lsh(big.NewInt(1), 254)}
	r.Bound("pattern_representations", len(ext))

	r.ParFor(len(ext), func(_, i int) {
		for _, k := range short {
			r.Transitions.Add(1)
			r.Evals.Add(1)

			if key, detail := c01Case(ext[i], k, ref.Secp.Mul(k, ext[i].P)); key != "" {
				c := Case{"op": "Multiply", "k": hx(k)}
				repCase("p", ext[i], c)
				r.Violation(key, detail, c)
			}
		}
	})

	r.States.Add(int64(len(ext) * len(short)))

	// window digits: every digit value at every position a windowed, comb or table-driven multiplication could
	// single out (a wrong table entry is wrong for exactly one (digit, position)), on G in two scalings and on H
	ws := alpha.WindowScalars()

	// endomorphism-degenerate scalars (see alpha.EndoScalars): where unified / Jacobian additions inside a
	// multiplication meet a pair with opposite y and different x
	endo := alpha.EndoScalars(31, 5)
	if ev.Thorough() {
		endo = alpha.EndoScalars(255, 8)
	}

	r.Bound("endomorphism_degenerate_scalars", len(endo))
	ws = append(ws, endo...)

	lams := Lambdas()
	wreps := []Rep{{ref.G(), big.NewInt(1)}, {ref.G(), lams[len(lams)/2]}, {HPoint(), big.NewInt(1)}}
	wtabs := []*mulTable{newMulTable(ref.G()), nil, newMulTable(HPoint())}
	wtabs[1] = wtabs[0]
	r.Bound("window_digit_scalars", len(ws))

	r.ParFor(len(ws), func(_, i int) {
		for j, rep := range wreps {
			r.Transitions.Add(1)
			r.Evals.Add(1)

			if key, detail := c01Case(rep, ws[i], wtabs[j].mul(ws[i])); key != "" {
				c := Case{"op": "Multiply", "k": hx(ws[i])}
				repCase("p", rep, c)
				r.Violation(key, detail, c)
			}
		}
	})

	r.States.Add(int64(len(ws) * len(wreps)))

	c := Case{"op": "Multiply", "k": hx(new(big.Int).Sub(ref.N, big.NewInt(1)))}
	repCase("p", reps[3].Rep, c)
	r.Sample(c)
	r.RequireNonVacuous("scalar_bit255_set", "result_identity")
}

func init() {
	Parts["C01real"] = Part{"C01", C01real}
	Replayers["C01"] = func(c Case) (bool, string) {
		switch c["op"] {
		case "Multiply":
			if _, scalarCase := c["a"]; scalarCase {
				return Replayers["C06"](c)
			}
		case "bin", "equals", "unary", "predicate", "neighbour", "sqrt", "parse", "wide":
			return Replayers["C12"](c)
		case "Add", "Subtract", "Square", "Invert", "Pow", "SetUInt64", "Zero", "One", "MinusOne", "Add(nil)", "Subtract(nil)", "Multiply(nil)", "Set(nil)", "NewScalar":
			return Replayers["C06"](c)
		}

		if c["op"] == "persist" {
			return Replayers["C10"](c)
		}

		rep := repFromCase("p", c)

		if c["op"] == "chain" {
			var max int
			fmt.Sscan(c["max"], &max)
			key, detail, _ := c01ChainCase(rep, max)

			return key == "", key + " " + detail
		}

		var (
			k    *big.Int
			want = ref.Infinity()
		)

		if c["k"] != "nil" {
			k = unhx(c["k"])
			want = ref.Secp.Mul(k, rep.P)
		}

		key, detail := c01Case(rep, k, want)

		return key == "", key + " " + detail
	}
}
