package checks

import (
	"bytes"
	"fmt"
	"math/big"
	"math/bits"
	"strconv"
	"strings"

	"github.com/bytemare/secp256k1/internal/field"
	"github.com/bytemare/secp256k1/internal/verif/alpha"
	"github.com/bytemare/secp256k1/internal/verif/ev"
	"github.com/bytemare/secp256k1/internal/verif/ref"
)

func fe(raw [4]uint64) *field.Element {
	return &field.Element{E: field.MontgomeryDomainFieldElement(raw)}
}

func feVal(v *big.Int) *field.Element { return fe(ref.Mont(ref.Mod(v, ref.P), ref.P)) }

// feIs checks that e holds exactly the canonical Montgomery representation of want.
func feIs(e *field.Element, want *big.Int) (bool, string) {
	l := [4]uint64(e.E)
	if !canonicalLimbs(l, pLimbs) {
		return false, fmt.Sprintf("non-canonical limbs %x", l)
	}

	if got := ref.Unmont(l, ref.P); got.Cmp(want) != 0 {
		return false, fmt.Sprintf("got %x want %x", got, want)
	}

	return true, ""
}

var c12Bin = []struct {
	name string
	op   func(e, u, v *field.Element) *field.Element
	or   func(a, b *big.Int) *big.Int
}{
	{"Add", (*field.Element).Add, ref.Fp.Add},
	{"Subtract", (*field.Element).Subtract, ref.Fp.Sub},
	{"Multiply", (*field.Element).Multiply, ref.Fp.Mul},
	{"CMove0", func(e, u, v *field.Element) *field.Element { return e.CMove(0, u, v) }, func(a, b *big.Int) *big.Int { return a }},
	{"CMove1", func(e, u, v *field.Element) *field.Element { return e.CMove(1, u, v) }, func(a, b *big.Int) *big.Int { return b }},
}

// shapes: which of (e, u, v) are the same variable
var c12Shapes = []string{"distinct", "e=u", "e=v", "u=v", "e=u=v"}

func c12BinCase(opi int, a, b alpha.Val, shape string) (key, detail string) {
	o := c12Bin[opi]
	u, v, e := fe(a.Raw), fe(b.Raw), fe([4]uint64{0x1111, 0x2222, 0x3333, 0x4444})
	bv := b

	switch shape {
	case "e=u":
		e = u
	case "e=v":
		e = v
	case "u=v":
		v, bv = u, a
	case "e=u=v":
		v, e, bv = u, u, a
	}

	want := o.or(a.V, bv.V)

	if ret := o.op(e, u, v); ret != e {
		return "field." + o.name + "/returns-other-pointer", ""
	}

	if ok, why := feIs(e, want); !ok {
		return "field." + o.name + "/wrong-result/" + shape, fmt.Sprintf("a=%x b=%x: %s", a.V, bv.V, why)
	}

	if (e != u && [4]uint64(u.E) != a.Raw) || (e != v && [4]uint64(v.E) != bv.Raw) {
		return "field." + o.name + "/operand-changed/" + shape, fmt.Sprintf("a=%x b=%x", a.V, bv.V)
	}

	return "", ""
}

func c12PairPredicates(a, b alpha.Val) (key, detail string) {
	u, v := fe(a.Raw), fe(b.Raw)
	if got := u.Equals(v); (got == 1) != (a.V.Cmp(b.V) == 0) || got > 1 {
		return "field.Equals/wrong", fmt.Sprintf("a=%x b=%x Equals=%d", a.V, b.V, got)
	}

	return "", ""
}

// c12NeighbourCase: Equals / IsZero against every canonical element that differs from a in exactly one bit of
// its stored limbs (bits 0, 31, 32, 63 of each limb) - comparisons that look at only part of a limb fail here.
func c12NeighbourCase(a alpha.Val) (key, detail string, n int) {
	u := fe(a.Raw)

	for i := 0; i < 4; i++ {
		for _, k := range []uint{0, 31, 32, 63} {
			raw := a.Raw
			raw[i] ^= 1 << k

			if !canonicalLimbs(raw, pLimbs) {
				continue
			}

			n++
			v := fe(raw)

			if got := u.Equals(v); got != 0 {
				return "field.Equals/wrong", fmt.Sprintf("limbs %x vs %x (differ in bit %d of limb %d): Equals=%d", a.Raw, raw, k, i, got), n
			}

			if got := v.Equals(u); got != 0 {
				return "field.Equals/wrong", fmt.Sprintf("limbs %x vs %x: Equals=%d", raw, a.Raw, got), n
			}

			if a.V.Sign() == 0 {
				if got := v.IsZero(); got != 0 {
					return "field.IsZero/wrong", fmt.Sprintf("limbs %x: IsZero=%d", raw, got), n
				}
			}
		}
	}

	return "", "", n
}

// c12PredicateCase: the cheap unary operations, run on the richer (level 2) alphabet.
func c12PredicateCase(a alpha.Val) (key, detail string) {
	u := fe(a.Raw)

	if got := u.IsZero(); got != uint64(b2i(a.V.Sign() == 0)) {
		return "field.IsZero/wrong", fmt.Sprintf("a=%x IsZero=%d", a.V, got)
	}

	if got := u.Sgn0(); got != uint64(a.V.Bit(0)) {
		return "field.Sgn0/wrong", fmt.Sprintf("a=%x Sgn0=%d", a.V, got)
	}

	if got := u.Bytes(); !bytes.Equal(got, ref.Bytes32(a.V)) {
		return "field.Bytes/not-canonical", fmt.Sprintf("a=%x Bytes=%x", a.V, got)
	}

	if ok, why := feIs(field.New().Negate(u), ref.Fp.Neg(a.V)); !ok {
		return "field.Negate/wrong-result", fmt.Sprintf("a=%x: %s", a.V, why)
	}

	if ok, why := feIs(field.New().Square(u), ref.Fp.Sqr(a.V)); !ok {
		return "field.Square/wrong-result", fmt.Sprintf("a=%x: %s", a.V, why)
	}

	if got := u.Equals(fe(a.Raw)); got != 1 {
		return "field.Equals/wrong", fmt.Sprintf("a=%x not equal to itself", a.V)
	}

	return "", ""
}

func c12UnaryCase(a alpha.Val) (key, detail string) {
	for _, alias := range []bool{false, true} {
		for _, c := range []struct {
			name string
			op   func(e, u *field.Element) *field.Element
			want *big.Int
		}{
			{"Negate", (*field.Element).Negate, ref.Fp.Neg(a.V)},
			{"Square", (*field.Element).Square, ref.Fp.Sqr(a.V)},
			{"Set", (*field.Element).Set, a.V},
			{"Invert", func(e, u *field.Element) *field.Element { return e.Invert(*u) }, ref.Fp.Inv0(a.V)},
		} {
			u := fe(a.Raw)
			e := fe([4]uint64{9, 9, 9, 9})

			if alias {
				e = u
			}

			if ret := c.op(e, u); ret != e {
				return "field." + c.name + "/returns-other-pointer", ""
			}

			if ok, why := feIs(e, c.want); !ok {
				return "field." + c.name + "/wrong-result", fmt.Sprintf("a=%x alias=%v: %s", a.V, alias, why)
			}

			if !alias && [4]uint64(u.E) != a.Raw {
				return "field." + c.name + "/operand-changed", fmt.Sprintf("a=%x", a.V)
			}
		}
	}

	u := fe(a.Raw)

	if got := u.IsZero(); got != uint64(b2i(a.V.Sign() == 0)) {
		return "field.IsZero/wrong", fmt.Sprintf("a=%x IsZero=%d", a.V, got)
	}

	if got := u.Sgn0(); got != uint64(a.V.Bit(0)) {
		return "field.Sgn0/wrong", fmt.Sprintf("a=%x Sgn0=%d", a.V, got)
	}

	if got := u.Bytes(); !bytes.Equal(got, ref.Bytes32(a.V)) {
		return "field.Bytes/not-canonical", fmt.Sprintf("a=%x Bytes=%x", a.V, got)
	}

	if ok, why := feIs(field.New().One(), big.NewInt(1)); !ok {
		return "field.One/wrong", why
	}

	if [4]uint64(u.E) != a.Raw {
		return "field.predicates/operand-changed", fmt.Sprintf("a=%x", a.V)
	}

	return "", ""
}

// c12SqrtCase: shape is one of distinct, e=u, e=v, u=v (receiver / argument aliasing).
func c12SqrtCase(a, b alpha.Val, shape string) (key, detail, class string) {
	u, v := fe(a.Raw), fe(b.Raw)
	e := field.New()

	switch shape {
	case "e=u":
		e = u
	case "e=v":
		e = v
	case "u=v":
		v, b = u, a
	}

	ret, flag := e.SqrtRatio(u, v)
	w := ref.Fp.Mul(a.V, ref.Fp.Inv0(b.V))
	sq := ref.Fp.IsSquare(w)
	desc := fmt.Sprintf("u=%x v=%x shape=%s", a.V, b.V, shape)

	if ret != e {
		return "field.SqrtRatio/returns-other-pointer", desc, ""
	}

	if flag > 1 || (flag == 1) != sq {
		return "field.SqrtRatio/wrong-flag", fmt.Sprintf("%s flag=%d, u/v square=%v", desc, flag, sq), ""
	}

	l := [4]uint64(e.E)
	if !canonicalLimbs(l, pLimbs) {
		return "field.SqrtRatio/non-canonical", desc, ""
	}

	y2 := ref.Fp.Sqr(ref.Unmont(l, ref.P))
	target := w
	class = "square"

	if !sq {
		target = ref.Fp.Mul(ref.SSWUZ, w)
		class = "non-square"
	}

	if y2.Cmp(target) != 0 {
		return "field.SqrtRatio/wrong-root/" + class, fmt.Sprintf("%s y^2=%x want %x", desc, y2, target), class
	}

	if (e != u && [4]uint64(u.E) != a.Raw) || (e != v && [4]uint64(v.E) != b.Raw) {
		return "field.SqrtRatio/operand-changed", desc, class
	}

	return "", "", class
}

func c12ParseCase(s *big.Int) (key, detail string) {
	in := ref.Arr32(s)
	e := fe([4]uint64{7, 7, 7, 7})
	ret, flag := e.FromBytesWithReduce(in)

	if ret != e {
		return "field.FromBytesWithReduce/returns-other-pointer", ""
	}

	if flag > 1 || (flag == 1) != (s.Cmp(ref.P) < 0) {
		return "field.FromBytesWithReduce/wrong-flag", fmt.Sprintf("input %x flag=%d", s, flag)
	}

	if ok, why := feIs(e, ref.Mod(s, ref.P)); !ok {
		return "field.FromBytesWithReduce/wrong-value", fmt.Sprintf("input %x: %s", s, why)
	}

	return "", ""
}

// wide48 returns the 48-byte string alphabet: products of a per-limb alphabet over 6 limbs, plus values around
// multiples of m.
func wide48(m *big.Int, level int) [][48]byte {
	limbVals := []uint64{0, 1, 1 << 63, ^uint64(0), ref.Limbs(m)[0], ref.Limbs(m)[3]}
	if level >= 1 {
		limbVals = append(limbVals, ref.Limbs(m)[1], 1<<32)
	}

	n := len(limbVals)
	total := 1

	for i := 0; i < 6; i++ {
		total *= n
	}

	out := make([][48]byte, 0, total+600)

	for t := 0; t < total; t++ {
		var b [48]byte

		x := t
		for l := 0; l < 6; l++ {
			v := limbVals[x%n]
			x /= n

			for j := 0; j < 8; j++ {
				b[47-8*l-j] = byte(v >> (8 * j))
			}
		}

		out = append(out, b)
	}

	// high words steered against a fold by c = 2^256 mod m (any word-wise reduction of the top 128 bits multiplies
	// them by the words of c): for every word cl of c other than 0 and 1, lo(w*cl) at 1, 2, 2^63, 2^64-2^32, 2^64-2,
	// 2^64-1 (w = t/cl mod 2^64, as far as the 2-adic valuation of cl allows) and hi(w*cl) at its steps
	// (w = floor(k*2^64/cl) and successor), crossed with the plain patterns, over low words from {0, 1, 2^64-1}
	{
		two64 := new(big.Int).Lsh(big.NewInt(1), 64)
		hiSet := map[uint64]bool{}
		hi := []uint64{}
		addHi := func(v uint64) {
			if !hiSet[v] {
				hiSet[v] = true
				hi = append(hi, v)
			}
		}

		for _, v := range []uint64{0, 1, 1 << 63, ^uint64(0)} {
			addHi(v)
		}

		for _, cw := range ref.Limbs(new(big.Int).Sub(ref.Two256(), m)) {
			if cw <= 1 {
				continue
			}

			addHi(cw)
			addHi(^cw + 1)

			e := uint(bits.TrailingZeros64(cw))
			mod := new(big.Int).Lsh(big.NewInt(1), 64-e)
			inv := new(big.Int).ModInverse(new(big.Int).SetUint64(cw>>e), mod).Uint64()

			for _, t := range []uint64{1, 2, 1 << 63, 0xffffffff00000000, ^uint64(0) - 1, ^uint64(0)} {
				if t&(1<<e-1) == 0 {
					addHi((t >> e) * inv & (1<<(64-e) - 1))
				}
			}

			for _, k := range []uint64{1, 2, cw - 1, cw >> 1} {
				q := new(big.Int).Div(new(big.Int).Mul(new(big.Int).SetUint64(k), two64), new(big.Int).SetUint64(cw)).Uint64()
				addHi(q)
				addHi(q + 1)
			}
		}

		lo := []uint64{0, 1, ^uint64(0)}

		for _, w5 := range hi {
			for _, w4 := range hi {
				for t := 0; t < 81; t++ {
					var b [48]byte

					ws := [6]uint64{lo[t%3], lo[t/3%3], lo[t/9%3], lo[t/27%3], w4, w5}
					for l := 0; l < 6; l++ {
						for j := 0; j < 8; j++ {
							b[47-8*l-j] = byte(ws[l] >> (8 * j))
						}
					}

					out = append(out, b)
				}
			}
		}
	}

	// fold-boundary members (solved): a reduction of hi*2^256 + lo by folding computes S = lo + hi*c with
	// c = 2^256 - m, folds the part of S above 2^256 again and finishes with conditional subtractions; each of these
	// steps has a carry or comparison that matters only when S lies within a few multiples of c of a multiple of
	// 2^256 (or of m) - a 2^-126 fraction of inputs for the group order. For a set of high parts hi (patterns and
	// fixed dense values) lo is solved for so that S = k*2^256 +- j*c + d and S = q*m + d, j <= 4, |d| <= 2.
	{
		c := new(big.Int).Sub(ref.Two256(), m)
		two256 := ref.Two256()
		his := []*big.Int{big.NewInt(1), big.NewInt(2), new(big.Int).Lsh(big.NewInt(1), 64), new(big.Int).Lsh(big.NewInt(1), 127),
			new(big.Int).Sub(new(big.Int).Lsh(big.NewInt(1), 128), big.NewInt(1)), new(big.Int).Sub(new(big.Int).Lsh(big.NewInt(1), 128), big.NewInt(2)),
			new(big.Int).Sub(new(big.Int).Lsh(big.NewInt(1), 127), big.NewInt(1)), new(big.Int).Sub(new(big.Int).Lsh(big.NewInt(1), 64), big.NewInt(1))}

		for _, f := range alpha.Fixed(12, "fold-boundary-hi") {
			his = append(his, new(big.Int).Rsh(f, 128), new(big.Int).Rsh(f, 129), new(big.Int).Rsh(f, 160))
		}

		emit := func(hi, target *big.Int) {
			lo := new(big.Int).Sub(target, new(big.Int).Mul(hi, c))
			if lo.Sign() < 0 || lo.Cmp(two256) >= 0 {
				return
			}

			var b [48]byte

			new(big.Int).Add(new(big.Int).Lsh(hi, 256), lo).FillBytes(b[:])
			out = append(out, b)
		}

		for _, hi := range his {
			hc := new(big.Int).Mul(hi, c)
			k0 := new(big.Int).Div(hc, two256).Int64()
			q0 := new(big.Int).Div(hc, m).Int64()

			for dk := int64(0); dk <= 2; dk++ {
				for j := int64(-4); j <= 4; j++ {
					for d := int64(-2); d <= 2; d++ {
						t := new(big.Int).Mul(big.NewInt(k0+dk), two256)
						t.Add(t, new(big.Int).Mul(big.NewInt(j), c))
						emit(hi, t.Add(t, big.NewInt(d)))
					}
				}

				for d := int64(-2); d <= 2; d++ {
					t := new(big.Int).Mul(big.NewInt(q0+dk), m)
					emit(hi, t.Add(t, big.NewInt(d)))
				}
			}
		}
	}

	// around multiples of m, and the extremes
	max := new(big.Int).Sub(new(big.Int).Lsh(big.NewInt(1), 384), big.NewInt(1))
	kmax := new(big.Int).Div(max, m)

	for _, k := range []*big.Int{big.NewInt(1), big.NewInt(2), new(big.Int).Lsh(big.NewInt(1), 64), new(big.Int).Lsh(big.NewInt(1), 127), kmax} {
		base := new(big.Int).Mul(k, m)
		for d := int64(-40); d <= 40; d++ {
			v := new(big.Int).Add(base, big.NewInt(d))
			if v.Sign() >= 0 && v.Cmp(max) <= 0 {
				var b [48]byte
				v.FillBytes(b[:])
				out = append(out, b)
			}
		}
	}

	for d := int64(0); d < 40; d++ {
		var b [48]byte
		new(big.Int).Sub(max, big.NewInt(d)).FillBytes(b[:])
		out = append(out, b)
	}

	return out
}

func c12WideCase(in [48]byte) (key, detail string) {
	e := fe([4]uint64{5, 5, 5, 5})
	cp := in

	if ret := e.HashToFieldElement(in); ret != e {
		return "field.HashToFieldElement/returns-other-pointer", ""
	}

	if ok, why := feIs(e, ref.Mod(ref.OS2IP(cp[:]), ref.P)); !ok {
		return "field.HashToFieldElement/wrong-reduction", fmt.Sprintf("input %x: %s", cp, why)
	}

	return "", ""
}

// C12 checks the base-field layer.
func C12(r *ev.Report) {
	thorough := ev.Thorough() && !c12Seam

	level := 0
	if thorough {
		level = 1
	}

	vals := alpha.Values(ref.P, level)
	pairVals := vals

	if thorough {
		pairVals = alpha.Thin(alpha.Values(ref.P, 2), 9000)
	}

	if c12Light && !thorough {
		pairVals = alpha.Thin(vals, 320) // seam under another property: a lighter pair product, same unary sweeps
	}

	// unary sweeps also run on the solved members (quotient digits and final subtraction at their boundaries)
	wit := alpha.ReductionWitnesses(ref.P)
	vals = alpha.WithWitnesses(vals, ref.P)

	r.Rule("internal/field called directly from the in-module harness: Add/Subtract/Multiply/CMove(0|1)/Equals on all ordered pairs of V_p (canonical- and Montgomery-structured limb products closed under negation and +-1) in the aliasing shapes distinct, e=u, e=v (every pair) and u=v, e=u=v (diagonal); Negate/Square/Set/Invert (aliased and not), IsZero/Sgn0/Bytes on all of V_p; SqrtRatio on V_p x a 48-value slice; FromBytesWithReduce on limb-product strings and the window around p; HashToFieldElement on the 6-limb product of 48-byte strings, on top words steered against the fold constant 2^256 mod p and around multiples of p; unary sweeps and parser also on the solved members (operands whose Montgomery quotient digits are structured; inputs for which ToMontgomery takes its final subtraction), Multiply also on the solved quotient pairs; non-trivial = both operands >= 2^64")
	r.Bound("values", len(vals))
	r.Bound("pair_values", len(pairVals))
	r.Bound("solved_quotient_pairs", len(wit.Pairs))
	r.Bound("solved_from_montgomery", len(wit.FromMont))
	r.Bound("solved_to_montgomery", len(wit.ToMont))
	r.Bound("solved_to_montgomery_final_subtraction", wit.ToMontSubtract)
	r.States.Add(int64(len(vals)))

	r.ParFor(len(wit.Pairs), func(_, i int) {
		a := alpha.Val{V: wit.Pairs[i][0], Raw: ref.Mont(wit.Pairs[i][0], ref.P)}
		b := alpha.Val{V: wit.Pairs[i][1], Raw: ref.Mont(wit.Pairs[i][1], ref.P)}

		for opi := range c12Bin {
			for _, shape := range c12Shapes[:3] {
				for _, ab := range [][2]alpha.Val{{a, b}, {b, a}} {
					r.Transitions.Add(1)
					r.Evals.Add(1)

					if key, detail := c12BinCase(opi, ab[0], ab[1], shape); key != "" {
						r.Violation(key, detail, Case{"op": "bin", "opi": fmt.Sprint(opi), "a": hx(ab[0].V), "b": hx(ab[1].V), "shape": shape})
					}
				}
			}
		}
	})

	r.ParFor(len(pairVals), func(_, i int) {
		a := pairVals[i]

		var n, nt int64

		for _, b := range pairVals {
			for opi := range c12Bin {
				for _, shape := range c12Shapes[:3] {
					n++

					if key, detail := c12BinCase(opi, a, b, shape); key != "" {
						r.Violation(key, detail, Case{"op": "bin", "opi": fmt.Sprint(opi), "a": hx(a.V), "b": hx(b.V), "shape": shape})
					}
				}
			}

			n++

			if key, detail := c12PairPredicates(a, b); key != "" {
				r.Violation(key, detail, Case{"op": "equals", "a": hx(a.V), "b": hx(b.V)})
			}

			if a.V.BitLen() > 64 && b.V.BitLen() > 64 {
				nt++
			}
		}

		for opi := range c12Bin {
			for _, shape := range c12Shapes[3:] {
				n++

				if key, detail := c12BinCase(opi, a, a, shape); key != "" {
					r.Violation(key, detail, Case{"op": "bin", "opi": fmt.Sprint(opi), "a": hx(a.V), "b": hx(a.V), "shape": shape})
				}
			}
		}

		r.Transitions.Add(n)
		r.Evals.Add(n)
		r.Distinct.Add(nt)
	})

	r.ParFor(len(vals), func(_, i int) {
		r.Transitions.Add(12)
		r.Evals.Add(1)

		if key, detail := c12UnaryCase(vals[i]); key != "" {
			r.Violation(key, detail, Case{"op": "unary", "a": hx(vals[i].V)})
		}
	})

	// the unary operations (Invert among them) on the division-step steered members of p, see alpha/divstep.go
	steered := c06Steered(ref.P, thorough)
	r.Bound("divstep_steered_members", len(steered))
	r.Rule("unary sweep also on the division-step steered members (operands whose 2-adic digits follow every periodic parity word up to the period bound for 256 division steps), as canonical value and as stored limbs")

	r.ParFor(len(steered), func(_, i int) {
		r.Transitions.Add(12)
		r.Evals.Add(1)
		r.Distinct.Add(1)

		if key, detail := c12UnaryCase(steered[i]); key != "" {
			r.Violation(key, detail, Case{"op": "unary", "a": hx(steered[i].V)})
		}
	})

	rich := alpha.Values(ref.P, 2)
	r.Bound("predicate_values", len(rich))
	r.States.Add(int64(len(rich)))

	r.ParFor(len(rich), func(_, i int) {
		r.Transitions.Add(6)
		r.Evals.Add(1)

		if key, detail := c12PredicateCase(rich[i]); key != "" {
			r.Violation(key, detail, Case{"op": "predicate", "a": hx(rich[i].V)})
		}

		key, detail, n := c12NeighbourCase(rich[i])
		r.Transitions.Add(int64(2 * n))
		r.Count("single_bit_neighbours", int64(n))

		if key != "" {
			r.Violation(key, detail, Case{"op": "neighbour", "a": hx(rich[i].V)})
		}
	})

	// SqrtRatio
	us := vals
	vs := alpha.Thin(vals, 32)

	if !thorough {
		us = append(alpha.Thin(vals, 900), alpha.RawNeighbours(ref.P, 1)...)
	}

	r.Bound("sqrt_u", len(us))
	r.Bound("sqrt_v", len(vs))

	r.ParFor(len(us), func(_, i int) {
		c := map[string]int64{}

		for _, v := range vs {
			if v.V.Sign() == 0 {
				continue
			}

			r.Transitions.Add(1)
			r.Evals.Add(1)

			for _, shape := range []string{"distinct", "e=u", "e=v", "u=v"} {
				key, detail, class := c12SqrtCase(us[i], v, shape)
				c["sqrt_ratio_"+class]++

				if key != "" {
					r.Violation(key, detail, Case{"op": "sqrt", "a": hx(us[i].V), "b": hx(v.V), "shape": shape})
				}
			}
		}

		r.Merge(c)
	})

	// parser
	strs := alpha.Strings256(ref.P, level+1)
	w := int64(1 << 10)

	for d := -w; d <= w; d++ {
		strs = append(strs, new(big.Int).Add(ref.P, big.NewInt(d)))
	}

	strs = append(strs, new(big.Int).Sub(ref.Two256(), big.NewInt(1)), big.NewInt(0))
	strs = append(strs, wit.ToMont...)
	strs = append(strs, wit.FromMont...)
	r.Bound("parse_strings", len(strs))

	r.ParFor(len(strs), func(_, i int) {
		r.Transitions.Add(1)
		r.Evals.Add(1)

		if strs[i].Cmp(ref.P) >= 0 {
			r.Count("parse_input_ge_p", 1)
		} else {
			r.Count("parse_input_lt_p", 1)
		}

		if key, detail := c12ParseCase(strs[i]); key != "" {
			r.Violation(key, detail, Case{"op": "parse", "a": hx(strs[i])})
		}
	})

	wide := wide48(ref.P, level)
	r.Bound("wide_strings", len(wide))

	r.ParFor(len(wide), func(_, i int) {
		r.Transitions.Add(1)
		r.Evals.Add(1)

		if key, detail := c12WideCase(wide[i]); key != "" {
			r.Violation(key, detail, Case{"op": "wide", "a": hb(wide[i][:])})
		}
	})

	r.Sample(Case{"op": "bin", "opi": "2", "a": hx(vals[len(vals)-1].V), "b": hx(vals[len(vals)/2].V), "shape": "e=u"})
	r.Sample(Case{"op": "sqrt", "a": hx(us[len(us)/2].V), "b": hx(vs[3].V)})
	r.Sample(Case{"op": "wide", "a": hb(wide[len(wide)/2][:])})
	r.RequireNonVacuous("sqrt_ratio_square", "sqrt_ratio_non-square", "parse_input_ge_p", "parse_input_lt_p", "single_bit_neighbours")
}

func valOfP(v *big.Int) alpha.Val {
	v = ref.Mod(v, ref.P)
	return alpha.Val{V: v, Raw: ref.Mont(v, ref.P)}
}

// c12Light selects the lighter pair product used when the field layer is checked as a seam under a group-level
// property (one part per process, so a package variable is safe).
var c12Light bool

// c12Seam is set when the sweep runs as a seam part: the thorough tier of the *other* property then runs this
// sweep at its quick depth (full pair product), not at its own thorough depth - that one belongs to C12 itself.
var c12Seam bool

func c12SeamLight(r *ev.Report) {
	c12Seam = true
	c12Light = !ev.Thorough()
	C12(r)
}

func c12SeamFull(r *ev.Report) {
	c12Seam = true
	C12(r)
}

func init() {
	// C10 (any history of group operations) rests on the same layer: a field-level slip that needs a special
	// Z produced by the formulas is reached by its histories only by brute force
	for _, pid := range []string{"C01", "C02", "C03", "C04", "C05", "C10"} {
		Parts[pid+"field"] = Part{pid, c12SeamLight}
	}

	// The hashing and map-to-curve properties rest on exact field arithmetic; their own (msg, DST) / u alphabets
	// reach a defective operand class of Mul or Square only by brute force over SHA-256, so the field layer - which
	// their anchors include - is checked as a seam under those properties as well.
	// the lighter sweep under C12 itself: what the GOARCH=386 cross-build runs in the quick tier
	Parts["C12lite"] = Part{"C12", c12SeamLight}
	Parts["C08field"] = Part{"C08", c12SeamFull}
	Parts["C11field"] = Part{"C11", c12SeamFull}
	Parts["C12"] = Part{"C12", C12}
	Replayers["C12"] = func(c Case) (bool, string) {
		var key, detail string

		switch c["op"] {
		case "bin":
			var opi int
			fmt.Sscan(c["opi"], &opi)
			key, detail = c12BinCase(opi, valOfP(unhx(c["a"])), valOfP(unhx(c["b"])), c["shape"])
		case "equals":
			key, detail = c12PairPredicates(valOfP(unhx(c["a"])), valOfP(unhx(c["b"])))
		case "unary":
			key, detail = c12UnaryCase(valOfP(unhx(c["a"])))
		case "predicate":
			key, detail = c12PredicateCase(valOfP(unhx(c["a"])))
		case "neighbour":
			key, detail, _ = c12NeighbourCase(valOfP(unhx(c["a"])))
		case "sqrt":
			key, detail, _ = c12SqrtCase(valOfP(unhx(c["a"])), valOfP(unhx(c["b"])), c["shape"])
		case "parse":
			key, detail = c12ParseCase(unhx(c["a"]))
		case "wide":
			var in [48]byte
			copy(in[:], unhb(c["a"]))
			key, detail = c12WideCase(in)
		case "persist12":
			var path []int

			for _, f := range strings.Fields(strings.Trim(c["path"], "[]")) {
				i, _ := strconv.Atoi(f)
				path = append(path, i)
			}

			key, detail = c12pRun(path, c12pOps())
		}

		return key == "", key + " " + detail
	}
}
