package checks

import (
	"crypto/rand"
	"errors"
	"fmt"
	"io"
	"math/big"
	mrand "math/rand"
	"sort"

	secp256k1 "github.com/bytemare/secp256k1"
	"github.com/bytemare/secp256k1/internal/verif/alpha"
	"github.com/bytemare/secp256k1/internal/verif/ev"
	"github.com/bytemare/secp256k1/internal/verif/ref"
)

// script is one behaviour of the randomness source: a byte stream, a chunking policy, and a fault.
type script struct {
	prior    int        // index into c18Priors: the value the receiver holds before the call
	blocks   []*big.Int // 32-byte blocks
	chunk    int        // bytes per Read at most (0 = as many as asked)
	alt      int        // if > 0, chunk sizes alternate between chunk and alt
	faultAt  int        // total byte offset after which the source fails (-1: only when the stream is exhausted)
	withData bool       // the failing Read also returns the last bytes before faultAt
	errKind  int        // 0 io.EOF, 1 io.ErrUnexpectedEOF, 2 custom
}

var errScripted = errors.New("scripted entropy failure")

type scriptedReader struct {
	s      script
	stream []byte
	pos    int
	reads  int
	flip   bool
}

func (r *scriptedReader) err() error {
	switch r.s.errKind {
	case 0:
		return io.EOF
	case 1:
		return io.ErrUnexpectedEOF
	}

	return errScripted
}

// errLivelock is raised by the scripted reader itself when the code under test keeps polling a source that has
// already failed: without it such a run would never end.
const errLivelock = "verif: entropy source polled again and again after it failed"

func (r *scriptedReader) Read(p []byte) (int, error) {
	r.reads++

	if r.reads > 100000 {
		panic(errLivelock)
	}

	limit := len(r.stream)
	if r.s.faultAt >= 0 && r.s.faultAt < limit {
		limit = r.s.faultAt
	}

	if r.pos >= limit {
		return 0, r.err()
	}

	n := len(p)

	c := r.s.chunk
	if r.s.alt > 0 && r.flip {
		c = r.s.alt
	}

	r.flip = !r.flip

	if c > 0 && n > c {
		n = c
	}

	if n > limit-r.pos {
		n = limit - r.pos
	}

	copy(p, r.stream[r.pos:r.pos+n])
	r.pos += n

	if r.s.withData && r.pos == limit {
		return n, r.err()
	}

	return n, nil
}

func (s script) String() string {
	bl := ""
	for _, b := range s.blocks {
		bl += fmt.Sprintf("%x,", b)
	}

	return fmt.Sprintf("receiver-before=%x blocks=[%s] chunk=%d alt=%d faultAt=%d withData=%v err=%d", c18Priors[s.prior], bl, s.chunk, s.alt, s.faultAt, s.withData, s.errKind)
}

// c18Priors are the values the receiver may hold before Random is called (Random must overwrite any of them).
var c18Priors = []*big.Int{big.NewInt(0), big.NewInt(1), new(big.Int).Sub(ref.N, big.NewInt(1)), ref.Mod(ref.OS2IP(fill(32, 2)), ref.N)}

// c18Oracle: the first complete block with value mod n != 0, reduced; ok=false means Random must panic.
func c18Oracle(s script) (*big.Int, bool) {
	limit := 32 * len(s.blocks)
	if s.faultAt >= 0 && s.faultAt < limit {
		limit = s.faultAt
	}

	for i, b := range s.blocks {
		if 32*(i+1) > limit {
			break
		}

		if v := ref.Mod(b, ref.N); v.Sign() != 0 {
			return v, true
		}
	}

	return nil, false
}

func c18Case(s script) (key, detail, class string) {
	rd := &scriptedReader{s: s}
	for _, b := range s.blocks {
		rd.stream = append(rd.stream, ref.Bytes32(b)...)
	}

	saved := rand.Reader
	rand.Reader = rd

	defer func() { rand.Reader = saved }()

	sc := newScalar(c18Priors[s.prior])

	var ret *secp256k1.Scalar

	pan := catchStr(func() { ret = sc.Random() })
	want, ok := c18Oracle(s)

	if !ok {
		class = "must-panic"

		if pan == "" {
			return "Random/returned-despite-failing-source", fmt.Sprintf("%v -> %x", s, ret.Encode()), class
		}

		if pan == errLivelock {
			return "Random/never-stops-polling-a-failed-source", s.String(), class
		}

		return "", "", class
	}

	class = "accept-first-block"
	if ref.Mod(s.blocks[0], ref.N).Sign() == 0 {
		class = "accept-after-retry"
	} else if s.blocks[0].Cmp(ref.N) >= 0 {
		class = "accept-reduced-block"
	}

	if pan != "" {
		return "Random/panicked-on-good-stream", fmt.Sprintf("%v: %s", s, pan), class
	}

	if ret != sc {
		return "Random/returns-other-pointer", s.String(), class
	}

	if ok, why := scalarIs(sc, want); !ok {
		return "Random/wrong-value/" + class, fmt.Sprintf("%v: %s", s, why), class
	}

	if sc.IsZero() {
		return "Random/zero", s.String(), class
	}

	return "", "", class
}

func c18Blocks() []*big.Int {
	one := big.NewInt(1)
	out := []*big.Int{
		big.NewInt(0), big.NewInt(1), new(big.Int).Sub(ref.N, one), new(big.Int).Set(ref.N), new(big.Int).Add(ref.N, one),
		new(big.Int).Lsh(one, 255), new(big.Int).Sub(ref.Two256(), one),
		ref.OS2IP(fill(32, 2)),
	}

	if seed := ev.Seed(); seed != 0 {
		rng := mrand.New(mrand.NewSource(seed))
		b := make([]byte, 32)
		rng.Read(b)
		out = append(out, ref.OS2IP(b))
	}

	return out
}

// c18ValueBlocks returns the 256-bit strings of the value sweep.
func c18ValueBlocks() []*big.Int {
	set := map[string]*big.Int{}
	add := func(v *big.Int) {
		if v.Sign() >= 0 && v.BitLen() <= 256 {
			set[v.Text(16)] = v
		}
	}

	for _, v := range alpha.Strings256(ref.N, 2) {
		add(v)
	}

	for d := int64(-256); d <= 256; d++ {
		add(new(big.Int).Add(ref.N, big.NewInt(d)))
		add(new(big.Int).Sub(ref.Two256(), big.NewInt(d)))
		add(new(big.Int).Add(new(big.Int).Lsh(big.NewInt(1), 255), big.NewInt(d)))
	}

	// single-limb deviations from n, and n with one limb replaced by a pattern
	nl := ref.Limbs(ref.N)
	for pos := 0; pos < 4; pos++ {
		for _, v := range []uint64{0, 1, 1 << 63, ^uint64(0), ^uint64(0) - 1, nl[pos] - 1, nl[pos] + 1} {
			l := nl
			l[pos] = v
			add(ref.FromLimbs(l))
		}
	}

	for _, v := range alpha.WithWitnesses(nil, ref.N) {
		add(v.V)
	}

	out := make([]*big.Int, 0, len(set))
	for _, v := range set {
		out = append(out, v)
	}

	sort.Slice(out, func(i, j int) bool { return out[i].Cmp(out[j]) < 0 })

	return out
}

// C18 explores every script of the entropy source up to the depth bound.
func C18(r *ev.Report) {
	depth := 4
	if ev.Thorough() {
		depth = 7
	}

	blocks := c18Blocks()
	deliveries := []struct{ chunk, alt int }{{0, 0}, {1, 0}, {31, 1}, {16, 0}, {5, 27}}
	faultOffsets := []int{0, 1, 16, 31}

	r.Rule("crypto/rand.Reader replaced by a scripted reader; every script = block sequence over {0, 1, n-1, n, n+1, 2^255, 2^256-1, pattern} of length <= depth x prior receiver value {0, 1, n-1, pattern} x delivery mode {whole, 1 byte per Read, 31+1, 16+16, 5+27} x fault {none / stream exhausted, failure after j in {0,1,16,31} bytes of block b for every b <= depth, with and without data in the failing Read, io.EOF / io.ErrUnexpectedEOF / custom error}; oracle = first complete block whose value mod n != 0, reduced, else panic; deviation view: default answer 'a full valid block', deviations = zero block, n, >= n, short read, error; non-trivial = scripts with at least one deviation")
	r.Bound("depth", depth)
	r.Bound("block_alphabet", len(blocks))

	var scripts []script

	var gen func(prefix []*big.Int)

	gen = func(prefix []*big.Int) {
		if len(prefix) > 0 {
			for _, d := range deliveries {
				scripts = append(scripts, script{blocks: prefix, chunk: d.chunk, alt: d.alt, faultAt: -1})

				for b := 0; b < len(prefix); b++ {
					for _, off := range faultOffsets {
						for _, wd := range []bool{false, true} {
							if wd && 32*b+off == 0 {
								continue
							}

							for ek := 0; ek < 3; ek++ {
								if ek > 0 && (d.chunk != 0 || off == 16) {
									continue // error kinds are only varied for the whole-read delivery
								}

								scripts = append(scripts, script{blocks: prefix, chunk: d.chunk, alt: d.alt, faultAt: 32*b + off, withData: wd, errKind: ek})
							}
						}
					}
				}
			}
		}

		if len(prefix) == depth {
			return
		}

		// extending a prefix whose last block is accepted adds nothing new: Random never reads past it
		if len(prefix) > 0 && ref.Mod(prefix[len(prefix)-1], ref.N).Sign() != 0 {
			return
		}

		for _, b := range blocks {
			gen(append(append([]*big.Int{}, prefix...), b))
		}
	}

	gen(nil)
	// fault with data that completes a block exactly (faultAt = 32(b+1)) is covered by faultAt=32b+0 withData of the next block.

	// every script with every prior receiver value
	base := scripts
	scripts = nil

	for _, s := range base {
		for p := range c18Priors {
			s.prior = p
			scripts = append(scripts, s)
		}
	}

	// value sweep: what Random does with an accepted block is a reduction of an arbitrary 256-bit string, so the
	// single-block scripts also run over the byte-string alphabet of the scalar decoders (limb products, windows
	// around n and 2^256, solved members), whole and byte-wise delivery, no fault, after a zero block and without
	nMain := len(scripts)

	for _, b := range c18ValueBlocks() {
		if ref.Mod(b, ref.N).Sign() == 0 {
			continue
		}

		for _, pre := range [][]*big.Int{nil, {big.NewInt(0)}} {
			for _, chunk := range []int{0, 1} {
				scripts = append(scripts, script{blocks: append(append([]*big.Int{}, pre...), b), chunk: chunk, faultAt: -1, prior: 3})
			}
		}
	}

	r.Bound("value_sweep_scripts", len(scripts)-nMain)
	r.Bound("scripts", len(scripts))
	r.Bound("prior_receiver_values", len(c18Priors))
	r.States.Add(int64(len(scripts)))

	// single-threaded: rand.Reader is process-global
	for i, s := range scripts {
		r.Transitions.Add(1)
		r.Evals.Add(1)

		key, detail, class := c18Case(s)
		r.Count(class, 1)

		if class != "accept-first-block" || s.chunk != 0 {
			r.Distinct.Add(1)
		}

		if key != "" {
			c := Case{"op": "random", "prior": fmt.Sprint(s.prior), "chunk": fmt.Sprint(s.chunk), "alt": fmt.Sprint(s.alt), "faultAt": fmt.Sprint(s.faultAt), "withData": fmt.Sprint(s.withData), "errKind": fmt.Sprint(s.errKind)}
			for j, b := range s.blocks {
				c[fmt.Sprintf("block%d", j)] = hx(b)
			}

			r.Violation(key, detail, c)
		}

		if i%5000 == 0 && r.Expired() {
			r.Incomplete(fmt.Sprintf("stopped after %d of %d scripts", i, len(scripts)))
			break
		}
	}

	r.Sample(Case{"op": "random", "block0": "0", "block1": hx(ref.N), "block2": hx(new(big.Int).Add(ref.N, big.NewInt(1))), "chunk": "1", "alt": "0", "faultAt": "-1", "withData": "false", "errKind": "0"})
	r.Sample(Case{"op": "random", "block0": "0", "block1": "1", "chunk": "0", "alt": "0", "faultAt": "63", "withData": "true", "errKind": "2"})
	r.RequireNonVacuous("must-panic", "accept-first-block", "accept-after-retry", "accept-reduced-block")
}

func init() {
	Parts["C18"] = Part{"C18", C18}
	Replayers["C18"] = func(c Case) (bool, string) {
		switch c["op"] {
		case "Add", "Subtract", "Multiply", "Square", "Invert", "Pow", "SetUInt64", "Zero", "One", "MinusOne", "Add(nil)", "Subtract(nil)", "Multiply(nil)", "Set(nil)", "NewScalar":
			return Replayers["C06"](c)
		}

		var s script

		for j := 0; ; j++ {
			b, ok := c[fmt.Sprintf("block%d", j)]
			if !ok {
				break
			}

			s.blocks = append(s.blocks, unhx(b))
		}

		fmt.Sscan(c["prior"], &s.prior)
		fmt.Sscan(c["chunk"], &s.chunk)
		fmt.Sscan(c["alt"], &s.alt)
		fmt.Sscan(c["faultAt"], &s.faultAt)
		fmt.Sscan(c["withData"], &s.withData)
		fmt.Sscan(c["errKind"], &s.errKind)

		key, detail, _ := c18Case(s)

		return key == "", key + " " + detail
	}
}
