package checks

import (
	"fmt"
	"math/big"

	"github.com/bytemare/secp256k1/internal/verif/alpha"
	"github.com/bytemare/secp256k1/internal/verif/ev"
	"github.com/bytemare/secp256k1/internal/verif/ref"
)

func b2i(b bool) int {
	if b {
		return 1
	}

	return 0
}

func c13PairCase(a, b alpha.Val) (key, detail string) {
	s, t := scalarRaw(a.Raw), scalarRaw(b.Raw)
	cmp := a.V.Cmp(b.V)

	if got := s.Equal(t); got != b2i(cmp == 0) {
		return "Equal/wrong", fmt.Sprintf("a=%x b=%x Equal=%d", a.V, b.V, got)
	}

	if got := s.LessOrEqual(t); got != uint64(b2i(cmp <= 0)) {
		return "LessOrEqual/differs-from-integer-order", fmt.Sprintf("a=%x b=%x LessOrEqual=%d", a.V, b.V, got)
	}

	if s.S != a.Raw || t.S != b.Raw {
		return "compare/operand-changed", fmt.Sprintf("a=%x b=%x", a.V, b.V)
	}

	return "", ""
}

func c13UnaryCase(a alpha.Val) (key, detail string) {
	s := scalarRaw(a.Raw)

	if got := s.IsZero(); got != (a.V.Sign() == 0) {
		return "IsZero/wrong", fmt.Sprintf("a=%x IsZero=%v", a.V, got)
	}

	if got := s.IsOne(); got != (a.V.Cmp(big.NewInt(1)) == 0) {
		return "IsOne/wrong", fmt.Sprintf("a=%x IsOne=%v", a.V, got)
	}

	if got := s.Equal(nil); got != 0 {
		return "Equal(nil)/nonzero", fmt.Sprintf("a=%x", a.V)
	}

	if got := s.Equal(s); got != 1 {
		return "Equal(self)/zero", fmt.Sprintf("a=%x", a.V)
	}

	if got := s.LessOrEqual(s); got != 1 {
		return "LessOrEqual(self)/zero", fmt.Sprintf("a=%x", a.V)
	}

	if s.S != a.Raw {
		return "compare/operand-changed", fmt.Sprintf("a=%x", a.V)
	}

	return "", ""
}

// c13NeighbourCase: Equal / IsZero / IsOne against every canonical scalar whose stored limbs differ from a's in
// exactly one bit (bits 0, 31, 32, 63 of each limb).
func c13NeighbourCase(a alpha.Val) (key, detail string, n int) {
	s := scalarRaw(a.Raw)

	if got := s.IsZero(); got != (a.V.Sign() == 0) {
		return "IsZero/wrong", fmt.Sprintf("a=%x IsZero=%v", a.V, got), n
	}

	if got := s.IsOne(); got != (a.V.Cmp(big.NewInt(1)) == 0) {
		return "IsOne/wrong", fmt.Sprintf("a=%x IsOne=%v", a.V, got), n
	}

	for i := 0; i < 4; i++ {
		for _, k := range []uint{0, 31, 32, 63} {
			raw := a.Raw
			raw[i] ^= 1 << k

			if !canonicalLimbs(raw, nLimbs) {
				continue
			}

			n++
			t := scalarRaw(raw)

			if s.Equal(t) != 0 || t.Equal(s) != 0 {
				return "Equal/wrong", fmt.Sprintf("limbs %x vs %x (differ in bit %d of limb %d) compare equal", a.Raw, raw, k, i), n
			}

			if a.V.Sign() == 0 && t.IsZero() {
				return "IsZero/wrong", fmt.Sprintf("limbs %x: IsZero=true", raw), n
			}

			if a.V.Cmp(big.NewInt(1)) == 0 && t.IsOne() {
				return "IsOne/wrong", fmt.Sprintf("limbs %x: IsOne=true", raw), n
			}
		}
	}

	return "", "", n
}

// c13SelectCase: shape "fresh" (receiver distinct), "recv=u", "recv=v", "u=v", "nil-u", "nil-v", "nil-both".
func c13SelectCase(cond uint64, u, v, prev alpha.Val, shape string) (key, detail string) {
	su, sv, s := scalarRaw(u.Raw), scalarRaw(v.Raw), scalarRaw(prev.Raw)
	want := u.V

	if cond != 0 {
		want = v.V
	}

	au, av := su, sv

	switch shape {
	case "recv=u":
		s = su
	case "recv=v":
		s = sv
	case "u=v":
		av = su
		want = u.V
	case "nil-u":
		au = nil
	case "nil-v":
		av = nil
	case "nil-both":
		au, av = nil, nil
	}

	before := s.S

	var err error

	if p := catchStr(func() { err = s.CSelect(cond, au, av) }); p != "" {
		return "CSelect/panic", fmt.Sprintf("cond=%#x shape=%s: %s", cond, shape, p)
	}

	if au == nil || av == nil {
		if err == nil || err.Error() != errNilScalar {
			return "CSelect/nil-operand-not-reported", fmt.Sprintf("cond=%#x shape=%s err=%v", cond, shape, err)
		}

		if s.S != before || su.S != u.Raw || sv.S != v.Raw {
			return "CSelect/nil-operand-changed-something", fmt.Sprintf("cond=%#x shape=%s", cond, shape)
		}

		return "", ""
	}

	if err != nil {
		return "CSelect/unexpected-error", fmt.Sprintf("cond=%#x: %v", cond, err)
	}

	if ok, why := scalarIs(s, want); !ok {
		k := "zero-condition"
		if cond != 0 {
			k = "nonzero-condition"
		}

		return "CSelect/wrong-selection/" + k, fmt.Sprintf("cond=%#x u=%x v=%x shape=%s: %s", cond, u.V, v.V, shape, why)
	}

	if (s != su && su.S != u.Raw) || (s != sv && sv.S != v.Raw) {
		return "CSelect/operand-changed", fmt.Sprintf("cond=%#x shape=%s", cond, shape)
	}

	return "", ""
}

func condAlphabet(level int) []uint64 {
	set := map[uint64]bool{0: true, 1: true, 2: true, 3: true, ^uint64(0): true, 0xaaaaaaaaaaaaaaaa: true, 0x5555555555555555: true}

	for i := uint(0); i < 64; i++ {
		p := uint64(1) << i
		set[p], set[p-1], set[^p] = true, true, true

		if level >= 1 {
			for j := uint(0); j < i; j++ {
				set[p|1<<j] = true
			}
		}
	}

	out := make([]uint64, 0, len(set))
	for v := range set {
		out = append(out, v)
	}

	return out
}

var c13Shapes = []string{"fresh", "recv=u", "recv=v", "u=v", "nil-u", "nil-v", "nil-both"}

// C13 checks comparisons and conditional selection.
func C13(r *ev.Report) {
	level := 0
	if ev.Thorough() {
		level = 1
	}

	vals := alpha.Values(ref.N, level)
	if ev.Thorough() {
		vals = alpha.Thin(alpha.Values(ref.N, 2), 24000)
	}

	r.Rule("Equal/LessOrEqual on all ordered pairs of V_n (Montgomery-structured members make limb order and integer order disagree); IsZero/IsOne/Equal(nil)/self-comparison on all of V_n; CSelect for every condition word of the alphabet (0, 1, 2, 3, all 2^i, 2^i-1, ~2^i, masks) x operand pairs x aliasing shapes incl. nil; non-trivial = pair on which raw-limb order and integer order differ, or condition word not in {0,1}")
	r.Bound("values", len(vals))
	r.States.Add(int64(len(vals)))

	r.ParFor(len(vals), func(_, i int) {
		a := vals[i]

		var n, disagree int64

		for _, b := range vals {
			n++

			if key, detail := c13PairCase(a, b); key != "" {
				r.Violation(key, detail, Case{"op": "pair", "a": hx(a.V), "b": hx(b.V)})
			}

			// non-triviality: Montgomery limb order differs from integer order
			if (ref.FromLimbs(a.Raw).Cmp(ref.FromLimbs(b.Raw)) <= 0) != (a.V.Cmp(b.V) <= 0) {
				disagree++
			}
		}

		if key, detail := c13UnaryCase(a); key != "" {
			r.Violation(key, detail, Case{"op": "unary", "a": hx(a.V)})
		}

		r.Transitions.Add(2*n + 5)
		r.Evals.Add(n + 1)
		r.Distinct.Add(disagree)
		r.Count("pairs_where_limb_order_differs", disagree)
	})

	// solved members against a thin slice of V_n, both orders
	wvals := alpha.WithWitnesses(nil, ref.N)
	thin := alpha.Thin(vals, 12)
	r.Bound("solved_members", len(wvals))

	r.ParFor(len(wvals), func(_, i int) {
		a := wvals[i]

		for _, b := range thin {
			for _, ab := range [][2]alpha.Val{{a, b}, {b, a}} {
				r.Transitions.Add(2)
				r.Evals.Add(1)

				if key, detail := c13PairCase(ab[0], ab[1]); key != "" {
					r.Violation(key, detail, Case{"op": "pair", "a": hx(ab[0].V), "b": hx(ab[1].V)})
				}
			}
		}

		if key, detail := c13UnaryCase(a); key != "" {
			r.Violation(key, detail, Case{"op": "unary", "a": hx(a.V)})
		}
	})

	rich := alpha.Values(ref.N, 2)
	r.Bound("predicate_values", len(rich))
	r.States.Add(int64(len(rich)))

	r.ParFor(len(rich), func(_, i int) {
		key, detail, n := c13NeighbourCase(rich[i])
		r.Transitions.Add(int64(2*n + 2))
		r.Evals.Add(1)
		r.Count("single_bit_neighbours", int64(n))

		if key != "" {
			r.Violation(key, detail, Case{"op": "neighbour", "a": hx(rich[i].V)})
		}
	})

	conds := condAlphabet(level)
	nm1 := valOf(new(big.Int).Sub(ref.N, big.NewInt(1)))
	pat1 := valOf(ref.OS2IP([]byte("\x0f\x1e\x2d\x3c\x4b\x5a\x69\x78\x87\x96\xa5\xb4\xc3\xd2\xe1\xf0\x0f\x1e\x2d\x3c\x4b\x5a\x69\x78\x87\x96\xa5\xb4\xc3\xd2\xe1\xf0")))
	pat2 := valOf(new(big.Int).Rsh(ref.N, 1))
	pairs := [][2]alpha.Val{{valOf(ref.I(0)), nm1}, {nm1, valOf(ref.I(0))}, {valOf(ref.I(1)), valOf(ref.I(2))}, {pat1, pat2}, {pat2, pat1}}
	prev := valOf(ref.I(77))

	r.Bound("condition_words", len(conds))

	r.ParFor(len(conds), func(_, i int) {
		c := conds[i]

		for _, p := range pairs {
			for _, shape := range c13Shapes {
				r.Transitions.Add(1)
				r.Evals.Add(1)

				if c > 1 {
					r.Distinct.Add(1)
					r.Count("cselect_condition_not_0_1", 1)
				}

				if key, detail := c13SelectCase(c, p[0], p[1], prev, shape); key != "" {
					r.Violation(key, detail, Case{"op": "cselect", "cond": fmt.Sprint(c), "u": hx(p[0].V), "v": hx(p[1].V), "shape": shape})
				}
			}
		}
	})

	r.States.Add(int64(len(conds)))
	r.Sample(Case{"op": "pair", "a": "2", "b": "1"})
	r.Sample(Case{"op": "cselect", "cond": "2", "u": "1", "v": "2", "shape": "fresh"})
	r.RequireNonVacuous("pairs_where_limb_order_differs", "cselect_condition_not_0_1")
}

func init() {
	Parts["C13"] = Part{"C13", C13}
	Replayers["C13"] = func(c Case) (bool, string) {
		switch c["op"] {
		case "Add", "Subtract", "Multiply", "Square", "Invert", "Pow", "SetUInt64", "Zero", "One", "MinusOne", "Add(nil)", "Subtract(nil)", "Multiply(nil)", "Set(nil)", "NewScalar":
			return Replayers["C06"](c)
		}

		if c["op"] == "persist" {
			return Replayers["C10"](c)
		}

		var key, detail string

		switch c["op"] {
		case "pair":
			key, detail = c13PairCase(valOf(unhx(c["a"])), valOf(unhx(c["b"])))
		case "unary":
			key, detail = c13UnaryCase(valOf(unhx(c["a"])))
		case "neighbour":
			key, detail, _ = c13NeighbourCase(valOf(unhx(c["a"])))
		case "cselect":
			var cond uint64
			fmt.Sscan(c["cond"], &cond)
			key, detail = c13SelectCase(cond, valOf(unhx(c["u"])), valOf(unhx(c["v"])), valOf(ref.I(77)), c["shape"])
		}

		return key == "", key + " " + detail
	}
}
