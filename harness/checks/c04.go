package checks

import (
	"bytes"
	"encoding/hex"
	"fmt"

	secp256k1 "github.com/bytemare/secp256k1"
	"github.com/bytemare/secp256k1/internal/verif/ev"
	"github.com/bytemare/secp256k1/internal/verif/ref"
)

// c04Case checks every encoder view of one representation and the two round trips.
func c04Case(rep Rep) (key, detail string) {
	e := newElement(rep)
	before := rawOf(e)
	want, wantU := ref.Enc(rep.P), ref.EncUncompressed(rep.P)
	desc := fmt.Sprintf("P=%s lambda=%x", ptStr(rep.P), rep.L)

	enc := e.Encode()
	if !bytes.Equal(enc, want) {
		return "Encode/not-canonical-SEC1", fmt.Sprintf("%s Encode=%x want %x", desc, enc, want)
	}

	unc := e.EncodeUncompressed()
	if !bytes.Equal(unc, wantU) {
		k := "EncodeUncompressed/not-canonical-SEC1"
		if rep.P.Inf {
			k = "EncodeUncompressed/identity-encoding"
		}
		// For the identity the property only requires the round trip; whatever bytes come back must decode to the identity.
		if !rep.P.Inf {
			return k, fmt.Sprintf("%s EncodeUncompressed=%x want %x", desc, unc, wantU)
		}
	}

	if x := e.XCoordinate(); !bytes.Equal(x, enc[1:]) {
		return "XCoordinate/differs-from-Encode", fmt.Sprintf("%s XCoordinate=%x", desc, x)
	}

	if h := e.Hex(); h != hex.EncodeToString(enc) {
		return "Hex/differs-from-Encode", fmt.Sprintf("%s Hex=%s", desc, h)
	}

	if m, err := e.MarshalBinary(); err != nil || !bytes.Equal(m, enc) {
		return "MarshalBinary/differs-from-Encode", fmt.Sprintf("%s MarshalBinary=%x err=%v", desc, m, err)
	}

	if rawOf(e) != before {
		return "encoders/receiver-changed", desc
	}

	for _, rt := range []struct {
		name string
		b    []byte
	}{{"Decode(Encode)", enc}, {"Decode(EncodeUncompressed)", unc}} {
		d := secp256k1.Base().Double() // a receiver with Z != 1 and a different value
		if err := d.Decode(rt.b); err != nil {
			return rt.name + "/rejected", fmt.Sprintf("%s bytes=%x: %v", desc, rt.b, err)
		}

		if ok, why := elementIs(d, rep.P); !ok {
			return rt.name + "/different-element", fmt.Sprintf("%s bytes=%x: %s", desc, rt.b, why)
		}

		if d.Equal(e) != 1 || e.Equal(d) != 1 {
			return rt.name + "/not-Equal-to-source", desc
		}
	}

	return "", ""
}

// C04real checks encodings on the representation alphabet of the real curve.
func C04real(r *ev.Report) {
	reps := Reps(0)
	for _, e := range CoordPatternReps() {
		reps = append(reps, IdxRep{e, -1})
	}

	r.Rule("real curve: Encode, EncodeUncompressed, XCoordinate, Hex, MarshalBinary and both Decode round trips on every (point alphabet x all scalings) incl. all identity representations, and on the coordinate-pattern representations of G and H (stored X or Y limbs from the limb-product alphabet); oracle = SEC1 encoder on the affine math/big point; non-trivial = scaling != 1")
	r.Bound("representations", len(reps))
	r.States.Add(int64(len(reps)))

	r.ParFor(len(reps), func(_, i int) {
		rep := reps[i]
		r.Transitions.Add(7)
		r.Evals.Add(1)

		if rep.L.Cmp(ref.I(1)) != 0 {
			r.Distinct.Add(1)
		}

		switch {
		case rep.P.Inf:
			r.Count("identity", 1)
		case rep.P.Y.Bit(0) == 1:
			r.Count("odd_y", 1)
		default:
			r.Count("even_y", 1)
		}

		if key, detail := c04Case(rep.Rep); key != "" {
			c := Case{"op": "encode"}
			repCase("p", rep.Rep, c)
			r.Violation(key, detail, c)
		}
	})

	c := Case{"op": "encode"}
	repCase("p", reps[8].Rep, c)
	r.Sample(c)
	r.RequireNonVacuous("identity", "odd_y", "even_y")
}

func init() {
	Parts["C04real"] = Part{"C04", C04real}
	Replayers["C04"] = func(c Case) (bool, string) {
		switch c["op"] {
		case "bin", "equals", "unary", "predicate", "neighbour", "sqrt", "parse", "wide":
			return Replayers["C12"](c)
		}

		if c["op"] == "persist" {
			return Replayers["C10"](c)
		}

		key, detail := c04Case(repFromCase("p", c))
		return key == "", key + " " + detail
	}
}
