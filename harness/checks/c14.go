package checks

import (
	"fmt"
	"math/big"

	"github.com/bytemare/secp256k1/internal/verif/alpha"
	"github.com/bytemare/secp256k1/internal/verif/ev"
	"github.com/bytemare/secp256k1/internal/verif/ref"
)

func c14Case(v *big.Int) (key, detail string) {
	s := newScalar(v)
	before := s.S
	bits := s.Bits()

	if len(bits) != 256 {
		return "Bits/length", fmt.Sprintf("len=%d", len(bits))
	}

	sum := new(big.Int)

	for i := 255; i >= 0; i-- {
		if bits[i] > 1 {
			return "Bits/not-binary", fmt.Sprintf("s=%x bits[%d]=%d", v, i, bits[i])
		}

		if uint(bits[i]) != v.Bit(i) {
			return fmt.Sprintf("Bits/wrong-bit-%d", i), fmt.Sprintf("s=%x: bits[%d]=%d, bit of canonical value is %d", v, i, bits[i], v.Bit(i))
		}

		sum.Lsh(sum, 1)
		sum.Add(sum, big.NewInt(int64(bits[i])))
	}

	if enc := ref.OS2IP(s.Encode()); enc.Cmp(sum) != 0 {
		return "Bits/sum-differs-from-Encode", fmt.Sprintf("s=%x sum=%x Encode=%x", v, sum, enc)
	}

	if s.S != before {
		return "Bits/receiver-changed", fmt.Sprintf("s=%x", v)
	}

	return "", ""
}

// C14 checks Scalar.Bits on the scalar alphabet.
func C14(r *ev.Report) {
	level := 1
	if ev.Thorough() {
		level = 2
	}

	ks := alpha.Scalars(level)
	for _, v := range alpha.WithWitnesses(alpha.Values(ref.N, level), ref.N) {
		ks = append(ks, v.V)
	}

	r.Rule("Scalar.Bits on every member of the scalar alphabet K (0..small, 2^i, 2^i+-1, n-1-2^i, 2^i-2^j, around n/2 and 2^255, limb products) and of the value alphabet V_n; non-trivial = value >= 2^64")
	r.Bound("scalars", len(ks))

	r.ParFor(len(ks), func(_, i int) {
		v := ks[i]
		r.Evals.Add(1)
		r.Transitions.Add(256)

		if v.BitLen() > 64 {
			r.Distinct.Add(1)
		}

		if v.Bit(255) == 1 {
			r.Count("bit255_set", 1)
		}

		if key, detail := c14Case(v); key != "" {
			r.Violation(key, detail, Case{"op": "Bits", "s": hx(v)})
		}
	})

	r.States.Add(int64(len(ks)))
	r.Sample(Case{"op": "Bits", "s": hx(ks[len(ks)-1])})
	r.Sample(Case{"op": "Bits", "s": hx(ks[len(ks)/2])})
	r.RequireNonVacuous("bit255_set")
}

func init() {
	Replayers["C14"] = func(c Case) (bool, string) {
		switch c["op"] {
		case "Add", "Subtract", "Multiply", "Square", "Invert", "Pow", "SetUInt64", "Zero", "One", "MinusOne", "Add(nil)", "Subtract(nil)", "Multiply(nil)", "Set(nil)", "NewScalar":
			return Replayers["C06"](c)
		}

		if c["op"] == "persist" {
			return Replayers["C10"](c)
		}

		key, detail := c14Case(unhx(c["s"]))
		return key == "", key + " " + detail
	}
}
