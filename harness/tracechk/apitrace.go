package tracechk

import (
	"encoding/json"
	"fmt"
	"os"
	"path/filepath"
	"sort"
	"strings"

	secp256k1 "github.com/bytemare/secp256k1"
	"github.com/bytemare/secp256k1/internal/field"
	"github.com/bytemare/secp256k1/internal/verif/ev"
	"github.com/bytemare/secp256k1/internal/verif/verifrt"
)

// Trace conformance between the scaled-down instance and the implementation (DESIGN.md section 3.5, item 3).
//
// Both the real build and the small-field build are instrumented. For every scenario (a group operation on a
// class of operands) the sequence of function entries is recorded and collapsed to the level of the field API:
// an entry into a function of package field stands for the whole call (the entries nested inside it - Fiat
// primitives in the real build, decode/encode helpers in the stand-in - are skipped, their number having been
// calibrated by calling that function alone). What remains is the straight-line program that element.go executes
// in terms of field operations. The two builds must produce identical collapsed sequences: the small instance
// executes the same program as the implementation, call for call.

// Env is what the variant-specific command supplies.
type Env struct {
	// Elem builds element number i of the variant's point list (0 = identity) in scaling l by writing raw limbs.
	Elem func(i int, l int64) *secp256k1.Element
	// FieldElem builds a field element with a small value.
	FieldElem func(v uint64) *field.Element
	// BadCompressed is a 33-byte compressed encoding whose abscissa is in range but not on the curve.
	BadCompressed []byte
}

func record(f func()) []int32 {
	var tr []int32

	verifrt.Hook = func(id int) { tr = append(tr, int32(id)) }
	f()
	verifrt.Hook = nil

	return tr
}

// calibrate returns, for every field-API function name, the number of entries one call of it generates.
func calibrate(env Env) (map[string]int, error) {
	a, b, c := env.FieldElem(3), env.FieldElem(5), env.FieldElem(4)

	var in [32]byte

	in[31] = 9

	var in48 [48]byte

	in48[47] = 9

	calls := map[string]func(){
		"field.New":                         func() { field.New() },
		"field.Element.One":                 func() { c.One() },
		"field.Element.Add":                 func() { c.Add(a, b) },
		"field.Element.Subtract":            func() { c.Subtract(a, b) },
		"field.Element.Multiply":            func() { c.Multiply(a, b) },
		"field.Element.Negate":              func() { c.Negate(a) },
		"field.Element.Square":              func() { c.Square(a) },
		"field.Element.Invert":              func() { c.Invert(*a) },
		"field.Element.SqrtRatio":           func() { c.SqrtRatio(a, b) },
		"field.Element.Sgn0":                func() { a.Sgn0() },
		"field.Element.CMove":               func() { c.CMove(1, a, b) },
		"field.Element.IsZero":              func() { a.IsZero() },
		"field.Element.Set":                 func() { c.Set(a) },
		"field.Element.Bytes":               func() { a.Bytes() },
		"field.Element.Equals":              func() { a.Equals(b) },
		"field.Element.FromBytesWithReduce": func() { c.FromBytesWithReduce(in) },
		"field.Element.HashToFieldElement":  func() { c.HashToFieldElement(in48) },
		"field.IsZero":                      func() { field.IsZero(1) },
		"field.IsEqual":                     func() { field.IsEqual(1, 2) },
		"field.IsNonZero":                   func() { field.IsNonZero(1) },
	}

	out := map[string]int{}

	for name, f := range calls {
		// New() allocates only and may have been inlined away as a call target: accept 0 or 1 entries for it
		n1 := len(record(f))
		n2 := len(record(f))

		if n1 != n2 {
			return nil, fmt.Errorf("calibration of %s is not constant (%d vs %d entries)", name, n1, n2)
		}

		if n1 == 0 {
			return nil, fmt.Errorf("calibration of %s recorded no entry", name)
		}

		tr := record(f)
		if got := verifrt.Names[tr[0]]; got != name {
			return nil, fmt.Errorf("calibration of %s: first entry is %s", name, got)
		}

		out[name] = n1
	}

	return out, nil
}

// collapse reduces a raw trace to field-API level.
func collapse(tr []int32, calib map[string]int) ([]string, error) {
	var out []string

	for i := 0; i < len(tr); {
		name := verifrt.Names[tr[i]]

		if strings.HasPrefix(name, "field.") {
			n, ok := calib[name]
			if !ok {
				return nil, fmt.Errorf("uncalibrated field function %s called from outside package field", name)
			}

			out = append(out, name)
			i += n

			continue
		}

		out = append(out, name)
		i++
	}

	return out, nil
}

type apiScenario struct {
	name string
	prep func() func() // prep builds operands (hook off) and returns the recorded action
}

func apiScenarios(env Env) []apiScenario {
	sc := func(v uint64) *secp256k1.Scalar { return secp256k1.NewScalar().SetUInt64(v) }
	el := env.Elem

	return []apiScenario{
		{"Add(P,Q)", func() func() { a, b := el(1, 2), el(2, 3); return func() { a.Add(b) } }},
		{"Add(P,P)", func() func() { a, b := el(1, 2), el(1, 5); return func() { a.Add(b) } }},
		{"Add(P,-P)", func() func() { a, b := el(1, 2), el(1, 5).Negate(); return func() { a.Add(b) } }},
		{"Add(P,O)", func() func() { a, b := el(1, 2), el(0, 3); return func() { a.Add(b) } }},
		{"Add(O,O)", func() func() { a, b := el(0, 2), el(0, 3); return func() { a.Add(b) } }},
		{"Add(self)", func() func() { a := el(3, 2); return func() { a.Add(a) } }},
		{"Add(nil)", func() func() { a := el(3, 2); return func() { a.Add(nil) } }},
		{"Subtract(P,Q)", func() func() { a, b := el(1, 2), el(2, 3); return func() { a.Subtract(b) } }},
		{"Subtract(self)", func() func() { a := el(3, 2); return func() { a.Subtract(a) } }},
		{"Double(P)", func() func() { a := el(2, 7); return func() { a.Double() } }},
		{"Double(O)", func() func() { a := el(0, 7); return func() { a.Double() } }},
		{"Negate(P)", func() func() { a := el(2, 7); return func() { a.Negate() } }},
		{"Negate(O)", func() func() { a := el(0, 7); return func() { a.Negate() } }},
		{"Equal(P,Q)", func() func() { a, b := el(1, 2), el(2, 3); return func() { a.Equal(b) } }},
		{"Equal(P,P')", func() func() { a, b := el(1, 2), el(1, 3); return func() { a.Equal(b) } }},
		{"IsIdentity", func() func() { a := el(1, 2); return func() { a.IsIdentity() } }},
		{"Identity", func() func() { a := el(1, 2); return func() { a.Identity() } }},
		{"Set", func() func() { a, b := el(1, 2), el(2, 3); return func() { a.Set(b) } }},
		{"Copy", func() func() { a := el(1, 2); return func() { a.Copy() } }},
		{"NewElement", func() func() { return func() { secp256k1.NewElement() } }},
		{"Encode(P)", func() func() { a := el(2, 5); return func() { a.Encode() } }},
		{"Encode(O)", func() func() { a := el(0, 5); return func() { a.Encode() } }},
		{"EncodeUncompressed(P)", func() func() { a := el(2, 5); return func() { a.EncodeUncompressed() } }},
		{"EncodeUncompressed(O)", func() func() { a := el(0, 5); return func() { a.EncodeUncompressed() } }},
		{"XCoordinate(P)", func() func() { a := el(2, 5); return func() { a.XCoordinate() } }},
		{"Decode(compressed)", func() func() { b := el(2, 5).Encode(); a := el(1, 2); return func() { _ = a.Decode(b) } }},
		{"Decode(uncompressed)", func() func() { b := el(2, 5).EncodeUncompressed(); a := el(1, 2); return func() { _ = a.Decode(b) } }},
		{"Decode(identity)", func() func() { a := el(1, 2); return func() { _ = a.Decode([]byte{0}) } }},
		{"Decode(off-curve)", func() func() { a := el(1, 2); b := env.BadCompressed; return func() { _ = a.Decode(b) } }},
		{"Decode(bad-prefix)", func() func() { b := el(2, 5).Encode(); b[0] = 5; a := el(1, 2); return func() { _ = a.Decode(b) } }},
		{"Decode(bad-length)", func() func() { a := el(1, 2); return func() { _ = a.Decode(make([]byte, 40)) } }},
		{"Multiply(0)", func() func() { a, k := el(1, 2), sc(0); return func() { a.Multiply(k) } }},
		{"Multiply(1)", func() func() { a, k := el(1, 2), sc(1); return func() { a.Multiply(k) } }},
		{"Multiply(5)", func() func() { a, k := el(1, 2), sc(5); return func() { a.Multiply(k) } }},
		{"Multiply(n-1)", func() func() { a, k := el(1, 2), secp256k1.NewScalar().MinusOne(); return func() { a.Multiply(k) } }},
		{"Multiply(nil)", func() func() { a := el(1, 2); return func() { a.Multiply(nil) } }},
		{"Multiply(O,5)", func() func() { a, k := el(0, 2), sc(5); return func() { a.Multiply(k) } }},
	}
}

// APITraces records and collapses every scenario, writes them to $VERIF_WORK/apitrace-<variant>.json and reports
// what was recorded. bin/check compares the files of the two builds.
func APITraces(env Env) func(r *ev.Report) {
	return func(r *ev.Report) {
		if len(verifrt.Names) == 0 {
			r.ToolError("binary is not instrumented")
			return
		}

		r.Rule("trace conformance: for every scenario (group operation x operand class: generic, doubling through Add, opposite points, identity operands, aliasing, nil, valid and invalid decodes, Multiply by 0/1/5/n-1/nil) the sequence of function entries of the instrumented build is collapsed to field-API level and written out; bin/check requires the sequences of the small-field build and of the real build to be identical call for call")

		calib, err := calibrate(env)
		if err != nil {
			r.ToolError("trace conformance: %v", err)
			return
		}

		out := map[string][]string{}

		for _, s := range apiScenarios(env) {
			action := s.prep()
			tr := record(action)

			col, err := collapse(tr, calib)
			if err != nil {
				// the tree under test calls a function of the field package that the calibration table does not
				// know (a refactoring added one): the two builds cannot be compared call for call on this tree.
				// That is a limit of the binding, not a verdict and not a failure of the machinery: the part
				// reports itself incomplete and leaves a marker for the runner.
				r.Incomplete(fmt.Sprintf("trace conformance not computable on this tree (scenario %s): %v", s.name, err))
				r.Note("trace conformance skipped: %v", err)

				if work := os.Getenv("VERIF_WORK"); work != "" {
					_ = os.WriteFile(filepath.Join(work, "apitrace-"+verifrt.Variant+".skip"), []byte(err.Error()), 0o644)
				}

				return
			}

			// determinism
			col2, _ := collapse(record(s.prep()), calib)
			if strings.Join(col, ",") != strings.Join(col2, ",") {
				r.ToolError("trace of scenario %s is not reproducible", s.name)
				return
			}

			out[s.name] = col
			r.States.Add(int64(len(col)))
			r.Transitions.Add(int64(len(col)))
			r.Evals.Add(1)
			r.Distinct.Add(1)
		}

		var names []string
		for n := range out {
			names = append(names, n)
		}

		sort.Strings(names)
		r.Bound("scenarios", len(names))
		r.Sample(map[string]any{"scenario": "Negate(P)", "collapsed_trace": out["Negate(P)"]})

		work := os.Getenv("VERIF_WORK")
		if work == "" {
			work = os.TempDir()
		}

		b, _ := json.Marshal(out)
		if err := os.WriteFile(filepath.Join(work, "apitrace-"+verifrt.Variant+".json"), b, 0o644); err != nil {
			r.ToolError("%v", err)
		}
	}
}
