package tracechk

import (
	"bytes"
	"fmt"
	"strings"

	secp256k1 "github.com/bytemare/secp256k1"
	"github.com/bytemare/secp256k1/internal/verif/conc"
	"github.com/bytemare/secp256k1/internal/verif/ev"
	"github.com/bytemare/secp256k1/internal/verif/verifrt"
)

// watchOp runs one operation of the concurrency alphabet with the instrumentation hook evaluating the invariant
// "every shared (caller-owned, non-receiver) byte and limb is unchanged" at EVERY function entry, i.e. in every
// intermediate state at function-entry granularity - not only after the call. A write that is undone before the
// call returns (negate the argument, use it, negate it back) is invisible to a post-state comparison but is a
// write to caller-owned memory and a data race for any concurrent reader.
func watchOp(op conc.Op, mask byte) (entries int, where string, off int) {
	sh := conc.NewSharedFill(mask)
	snap := sh.Snapshot()
	buf := make([]byte, 0, len(snap))
	off = -1

	verifrt.Hook = func(id int) {
		entries++

		if where != "" {
			return
		}

		if cur := sh.SnapshotInto(buf); !bytes.Equal(cur, snap) {
			where = verifrt.Names[id]

			for off = 0; off < len(snap) && cur[off] == snap[off]; off++ {
			}
		}
	}

	op.Run(sh)
	verifrt.Hook = nil

	if where == "" && !bytes.Equal(sh.Snapshot(), snap) {
		where = "(after return)"
	}

	return entries, where, off
}

func watchPart(prop string, filter func(name string) bool) func(r *ev.Report) {
	return func(r *ev.Report) {
		if len(verifrt.Names) == 0 {
			r.ToolError("binary is not instrumented")
			return
		}

		r.Rule("instrumented build: every operation of the concurrency alphabet (receivers owned by the caller, arguments shared: elements, scalars, message/DST/encoding slices with spare capacity) is run with the invariant 'all shared memory is bit-identical to its snapshot' evaluated at EVERY function entry of the three packages (every intermediate state at function-entry granularity), with two complementary buffer fills; catches writes that are undone before the call returns; package-level variables compared before/after; non-trivial = all")

		globals := secp256k1.VerifAllGlobals()
		n := 0

		for i, op := range conc.Ops {
			if filter != nil && !filter(op.Name) {
				continue
			}

			n++

			for _, mask := range []byte{0x00, 0xff} {
				entries, where, off := watchOp(op, mask)
				r.States.Add(int64(entries))
				r.Transitions.Add(int64(entries))
				r.Evals.Add(1)
				r.Distinct.Add(1)

				if where != "" {
					r.Violation("transient-or-lasting-write-to-shared-argument/"+strings.SplitN(op.Name, "(", 2)[0],
						fmt.Sprintf("%s: shared memory differs from its snapshot (offset %d) when %s is entered", op.Name, off, where),
						Case{"op": "watch", "i": fmt.Sprint(i), "name": op.Name, "mask": fmt.Sprint(mask)})
				}
			}

			if g := secp256k1.VerifAllGlobals(); g != globals {
				r.PackageState("package-level-state-changed", fmt.Sprintf("%s: %s -> %s", op.Name, globals, g), Case{"op": "watch", "i": fmt.Sprint(i), "name": op.Name, "mask": "0"})
				globals = g
			}
		}

		r.Bound("operations", n)
		r.Sample(Case{"op": "watch", "i": "9", "name": conc.Ops[9].Name, "mask": "0"})
	}
}

// Watch parts, one per property that speaks about arguments staying untouched.
var (
	C15watch = watchPart("C15", nil)
	C16watch = watchPart("C16", nil)
	C02watch = watchPart("C02", func(n string) bool {
		return strings.HasPrefix(n, "Element.") || strings.HasPrefix(n, "E1.") || strings.HasPrefix(n, "NewElement")
	})
)

// ReplayWatch re-runs one watched operation.
func ReplayWatch(c Case) (bool, string) {
	var i, mask int

	fmt.Sscan(c["i"], &i)
	fmt.Sscan(c["mask"], &mask)

	if i < 0 || i >= len(conc.Ops) {
		return false, "bad operation index"
	}

	_, where, off := watchOp(conc.Ops[i], byte(mask))
	if where == "" {
		return true, ""
	}

	return false, fmt.Sprintf("%s: shared memory differs from its snapshot (offset %d) when %s is entered", conc.Ops[i].Name, off, where)
}
