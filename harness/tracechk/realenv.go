package tracechk

import (
	"math/big"

	secp256k1 "github.com/bytemare/secp256k1"
	"github.com/bytemare/secp256k1/internal/field"
	"github.com/bytemare/secp256k1/internal/verif/ref"
)

// RealEnv supplies operands on secp256k1: element i is [i]G.
func RealEnv() Env {
	off := int64(1)
	for ; ref.Fp.IsSquare(ref.Secp.RHS(big.NewInt(off))); off++ {
	}

	return Env{
		Elem: func(i int, l int64) *secp256k1.Element {
			return rawElement(ref.Secp.Mul(big.NewInt(int64(i)), ref.G()), big.NewInt(l))
		},
		FieldElem: func(v uint64) *field.Element {
			return &field.Element{E: field.MontgomeryDomainFieldElement(ref.Mont(new(big.Int).SetUint64(v), ref.P))}
		},
		BadCompressed: append([]byte{2}, ref.Bytes32(big.NewInt(off))...),
	}
}
