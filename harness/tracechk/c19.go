// Package tracechk holds the checks that need the instrumented build (variant "instr"): every function of the
// three packages starts with verifrt.Enter(id), which the checks use as a trace recorder.
package tracechk

import (
	"fmt"
	"math/big"
	"os"
	"sort"
	"strings"

	secp256k1 "github.com/bytemare/secp256k1"
	"github.com/bytemare/secp256k1/internal/verif/alpha"
	"github.com/bytemare/secp256k1/internal/verif/ev"
	"github.com/bytemare/secp256k1/internal/verif/ref"
	"github.com/bytemare/secp256k1/internal/verif/sched"
	"github.com/bytemare/secp256k1/internal/verif/verifrt"
)

// Case mirrors checks.Case.
type Case map[string]string

// recorder accumulates the trace of function entries, split by package.
type recorder struct {
	isField, isScalar, isRoot []bool
	fieldHash, allHash        uint64
	fieldN, scalarN, rootN    int
	full                      []int32 // when recording in full
	keepFull                  bool
}

func newRecorder() *recorder {
	r := &recorder{}

	for _, n := range verifrt.Names {
		r.isField = append(r.isField, strings.HasPrefix(n, "field."))
		r.isScalar = append(r.isScalar, strings.HasPrefix(n, "scalar."))
		r.isRoot = append(r.isRoot, strings.HasPrefix(n, "secp256k1."))
	}

	return r
}

func (r *recorder) reset(keepFull bool) {
	r.fieldHash, r.allHash = 1469598103934665603, 1469598103934665603
	r.fieldN, r.scalarN, r.rootN = 0, 0, 0
	r.full = r.full[:0]
	r.keepFull = keepFull
}

func (r *recorder) hook(id int) {
	r.allHash = (r.allHash ^ uint64(id)) * 1099511628211

	switch {
	case r.isField[id]:
		r.fieldHash = (r.fieldHash ^ uint64(id)) * 1099511628211
		r.fieldN++

		if r.keepFull {
			r.full = append(r.full, int32(id))
		}
	case r.isScalar[id]:
		r.scalarN++
	default:
		r.rootN++
	}
}

type traceSig struct {
	fieldHash uint64
	fieldN    int
}

func newScalar(v *big.Int) *secp256k1.Scalar {
	s := secp256k1.NewScalar()
	s.S = ref.Mont(v, ref.N)

	return s
}

type point struct {
	name string
	mk   func() *secp256k1.Element
}

func rawElement(p ref.Pt, l *big.Int) *secp256k1.Element {
	e := secp256k1.VerifBlankElement()
	if p.Inf {
		return secp256k1.VerifSetRaw(e, [4]uint64{}, ref.Mont(l, ref.P), [4]uint64{})
	}

	return secp256k1.VerifSetRaw(e, ref.Mont(ref.Fp.Mul(p.X, l), ref.P), ref.Mont(ref.Fp.Mul(p.Y, l), ref.P), ref.Mont(l, ref.P))
}

func points() []point {
	g2 := ref.Secp.Double(ref.G())
	scaled := func() *secp256k1.Element {
		return rawElement(g2, new(big.Int).Add(new(big.Int).Lsh(big.NewInt(1), 128), big.NewInt(5)))
	}

	// Besides fixed points built from raw limbs, points with a HISTORY: whatever the library may remember about an
	// element from earlier calls (a memoised affine form or encoding, say) must not make the ladder's work depend
	// on the scalar either.
	return []point{
		{"G", func() *secp256k1.Element { return rawElement(ref.G(), big.NewInt(1)) }},
		{"2G scaled by 2^128+5", scaled},
		{"identity (0:7:0)", func() *secp256k1.Element { return rawElement(ref.Infinity(), big.NewInt(7)) }},
		// the Go zero value of the exported type: not a group element, but a value any caller can hold; whatever
		// Multiply does with it must still not depend on the scalar
		{"zero-value Element (0:0:0)", func() *secp256k1.Element { return secp256k1.VerifBlankElement() }},
		{"Base()", func() *secp256k1.Element { return secp256k1.Base() }},
		{"scaled 2G after Encode", func() *secp256k1.Element { e := scaled(); e.Encode(); return e }},
		{"scaled 2G after EncodeUncompressed+Hex", func() *secp256k1.Element { e := scaled(); e.EncodeUncompressed(); _ = e.Hex(); return e }},
		{"copy of an encoded scaled 2G", func() *secp256k1.Element { e := scaled(); e.Encode(); return e.Copy() }},
		{"Set from an encoded scaled 2G", func() *secp256k1.Element { e := scaled(); e.Encode(); return secp256k1.NewElement().Set(e) }},
		{"scaled 2G after Equal/IsIdentity/use as Add argument", func() *secp256k1.Element {
			e := scaled()
			e.Equal(secp256k1.Base())
			e.IsIdentity()
			secp256k1.Base().Add(e)

			return e
		}},
		{"decoded from its compressed encoding", func() *secp256k1.Element {
			e := secp256k1.NewElement()
			_ = e.Decode(ref.Enc(g2))

			return e
		}},
		{"decoded from its uncompressed encoding, then encoded", func() *secp256k1.Element {
			e := secp256k1.NewElement()
			_ = e.Decode(ref.EncUncompressed(g2))
			e.Encode()

			return e
		}},
		{"HashToGroup output", func() *secp256k1.Element {
			return secp256k1.HashToGroup([]byte("c19"), []byte("VERIF-C19-dst-0123456789"))
		}},
		{"result of a previous Multiply, encoded", func() *secp256k1.Element {
			e := secp256k1.Base().Multiply(newScalar(big.NewInt(77)))
			e.Encode()

			return e
		}},
		// points with a special coordinate: a fast path keyed on "this coordinate is 1" (mixed addition when Z = 1,
		// say) is taken for ordinary points at scalar-independent places only, but a point whose affine y or x is 1
		// makes intermediate ladder registers look "affine" depending on the scalar
		{"affine point with y = 1", func() *secp256k1.Element { return rawElement(pointWithY1(), big.NewInt(1)) }},
		{"decoded point with y = 1", func() *secp256k1.Element {
			e := secp256k1.NewElement()
			_ = e.Decode(ref.EncUncompressed(pointWithY1()))

			return e
		}},
		{"affine point with x = 1", func() *secp256k1.Element { return rawElement(pointWithX1(), big.NewInt(1)) }},
		{"G with Z stored as the limbs {1,0,0,0}", func() *secp256k1.Element {
			return rawElement(ref.G(), ref.Unmont([4]uint64{1, 0, 0, 0}, ref.P))
		}},
		{"point with y = 1 scaled by 2^128+5", func() *secp256k1.Element {
			return rawElement(pointWithY1(), new(big.Int).Add(new(big.Int).Lsh(big.NewInt(1), 128), big.NewInt(5)))
		}},
	}
}

// pointWithY1 returns the curve point (cbrt(-6), 1): x^3 + 7 = 1. p = 7 mod 9, so a cube root of a cubic residue a
// is a^((p+2)/9).
func pointWithY1() ref.Pt {
	a := ref.Fp.Neg(big.NewInt(6))
	e := new(big.Int).Div(new(big.Int).Add(ref.P, big.NewInt(2)), big.NewInt(9))
	x := ref.Fp.Exp(a, e)
	pt := ref.Pt{X: x, Y: big.NewInt(1)}

	if !ref.Secp.On(pt) {
		panic("tracechk: no point with y = 1")
	}

	return pt
}

// pointWithX1 returns a curve point (1, sqrt(8)).
func pointWithX1() ref.Pt {
	y := ref.Fp.Sqrt(big.NewInt(8))
	pt := ref.Pt{X: big.NewInt(1), Y: y}

	if y == nil || !ref.Secp.On(pt) {
		panic("tracechk: no point with x = 1")
	}

	return pt
}

// traceMultiply runs Multiply(k) on a fresh copy of the point with the recorder on.
func traceMultiply(rec *recorder, p point, k *big.Int, full bool) traceSig {
	return traceMultiplyWith(rec, p, func() *secp256k1.Scalar { return newScalar(k) }, full)
}

// scalarWithPast builds the scalar k as an object with a history: it was 1 (the value of the documented shortcut),
// then a REJECTED decode of n+k overwrote its limbs with k - what the pinned Decode does before it returns "scalar too
// big". Whatever the object remembers of its earlier value must not steer the ladder. nil when the tree's rejected
// decode does not leave exactly k in the limbs (then there is no such object to speak of).
func scalarWithPast(k *big.Int, viaHex bool) *secp256k1.Scalar {
	s := secp256k1.NewScalar().One()
	_ = s.IsOne()
	_ = s.Encode()
	_ = s.Bits()

	big := ref.Bytes32(new(big.Int).Add(ref.N, k))

	var err error
	if viaHex {
		err = s.DecodeHex(fmt.Sprintf("%x", big))
	} else {
		err = s.Decode(big)
	}

	if err == nil || [4]uint64(s.S) != ref.Mont(k, ref.N) {
		return nil
	}

	return s
}

func traceMultiplyWith(rec *recorder, p point, mkScalar func() *secp256k1.Scalar, full bool) traceSig {
	e, s := p.mk(), mkScalar()

	rec.reset(full)

	if verifrt.GoLive.Load() != 0 {
		traceUndecidable = "the library keeps goroutines running between calls (workers): the order in which their field operations reach the recorder is not owned by any schedule"
		return traceSig{}
	}

	if !scheduledTraces {
		g0 := verifrt.GoCount.Load()
		verifrt.Hook = rec.hook
		e.Multiply(s)
		verifrt.Hook = nil

		if verifrt.GoCount.Load() == g0 {
			return traceSig{rec.fieldHash, rec.fieldN}
		}

		// Multiply starts goroutines on this tree: the order in which their field operations reach the recorder is
		// the Go scheduler's. From now on every traced call runs as the single harness thread of a cooperative
		// execution with the default schedule (no preemption; a started goroutine runs when its parent waits for it
		// or ends), which is deterministic - the property is then judged on that one schedule.
		scheduledTraces = true
		e, s = p.mk(), mkScalar()
		rec.reset(full)
	}

	if noPoints == nil {
		noPoints = make([]bool, len(verifrt.Names))
	}

	if verifrt.GoLive.Load() != 0 {
		traceUndecidable = "the library keeps goroutines running between calls (workers): the order in which their field operations reach the recorder is not owned by any schedule"
		return traceSig{}
	}

	sched.Observer = rec.hook
	ex := sched.Run([]func(){func() { e.Multiply(s) }}, nil, noPoints)
	sched.Observer = nil

	if ex.Stuck || ex.Deadlock {
		traceUndecidable = "a traced Multiply did not complete under the cooperative scheduler (blocking it does not own)"
	}

	return traceSig{rec.fieldHash, rec.fieldN}
}

var (
	scheduledTraces  bool
	noPoints         []bool
	traceUndecidable string
)

func c19Scalars(thorough bool) []*big.Int {
	set := map[string]*big.Int{}
	add := func(v *big.Int) {
		if v.Sign() >= 0 && v.Cmp(ref.N) < 0 && v.Cmp(big.NewInt(1)) != 0 {
			set[v.Text(16)] = v
		}
	}

	one := big.NewInt(1)
	nm1 := new(big.Int).Sub(ref.N, one)

	add(big.NewInt(0))
	add(nm1)

	for i := uint(0); i < 256; i++ {
		bi := new(big.Int).Lsh(one, i)
		add(bi)
		add(new(big.Int).Xor(nm1, bi))

		if thorough {
			for j := uint(0); j < i; j++ {
				bj := new(big.Int).Lsh(one, j)
				add(new(big.Int).Or(bi, bj))
				add(new(big.Int).Xor(new(big.Int).Xor(nm1, bi), bj))
			}
		}
	}

	for i := int64(0); i <= 64; i++ {
		add(big.NewInt(i))
	}

	for _, k := range alpha.Scalars(0) {
		add(k)
	}

	// scalars at which an incomplete addition inside a multiplication degenerates through the endomorphism (a
	// fallback taken there is a scalar-dependent schedule), see alpha.EndoScalars
	for _, k := range alpha.EndoScalars(15, 1) {
		add(k)
	}

	if thorough {
		// all 3-bit deviations from 0 and from n-1 whose bits lie in the lowest 24 or the highest 24 positions
		var pos []uint
		for i := uint(0); i < 24; i++ {
			pos = append(pos, i, 255-i)
		}

		for a := 0; a < len(pos); a++ {
			for b := a + 1; b < len(pos); b++ {
				for c := b + 1; c < len(pos); c++ {
					m := new(big.Int).Lsh(one, pos[a])
					m.Or(m, new(big.Int).Lsh(one, pos[b]))
					m.Or(m, new(big.Int).Lsh(one, pos[c]))
					add(m)
					add(new(big.Int).Xor(nm1, m))
				}
			}
		}
	}

	if thorough {
		// every 16-bit window value at 16 offsets would be 1M runs; a 2^12 stride through them keeps the shape
		for off := uint(0); off < 256; off += 16 {
			for w := int64(1); w < 1<<16; w += 257 {
				add(new(big.Int).Lsh(big.NewInt(w), off))
			}
		}
	}

	out := make([]*big.Int, 0, len(set))
	for _, v := range set {
		out = append(out, v)
	}

	sort.Slice(out, func(i, j int) bool { return out[i].Cmp(out[j]) < 0 })

	return out
}

func firstDivergence(a, b []int32) string {
	n := len(a)
	if len(b) < n {
		n = len(b)
	}

	for i := 0; i < n; i++ {
		if a[i] != b[i] {
			return fmt.Sprintf("first divergence at field operation #%d: reference %s, this scalar %s", i, verifrt.Names[a[i]], verifrt.Names[b[i]])
		}
	}

	return fmt.Sprintf("common prefix of %d field operations, then lengths differ: reference %d, this scalar %d", n, len(a), len(b))
}

func c19Case(rec *recorder, p point, k *big.Int) (key, detail string) {
	ref0 := traceMultiply(rec, p, big.NewInt(0), false)
	got := traceMultiply(rec, p, k, false)

	if got == ref0 {
		return "", ""
	}

	traceMultiply(rec, p, big.NewInt(0), true)
	a := append([]int32{}, rec.full...)
	traceMultiply(rec, p, k, true)
	b := append([]int32{}, rec.full...)

	class := "different-length"
	if len(a) == len(b) {
		class = "different-order"
	}

	return "Multiply/field-operation-schedule-depends-on-scalar/" + class,
		fmt.Sprintf("point %s, k=%x: %s", p.name, k, firstDivergence(a, b))
}

// C19 compares the field-operation trace of Multiply across the scalar alphabet.
func C19(r *ev.Report) {
	if len(verifrt.Names) == 0 {
		r.ToolError("binary is not instrumented")
		return
	}

	shardI, shardN := 0, 1
	fmt.Sscanf(os.Getenv("VERIF_SHARD"), "%d/%d", &shardI, &shardN)

	if shardN < 1 {
		shardN = 1
	}

	rec := newRecorder()
	ks := c19Scalars(ev.Thorough())
	pts := points()

	r.Rule("instrumented build (verifrt.Enter at every function entry of the three packages): for each of 19 fixed points (G, a re-scaled 2G, points whose affine y or x is 1 and G with Z stored as the limbs {1,0,0,0}, a non-canonical identity, the zero value of the Element type, Base(), and points with a history: encoded before, copied or Set from an encoded point, used in Equal / as an Add argument, decoded, hashed, produced by a previous Multiply) the sequence of internal/field function entries during Multiply(k) is compared (incremental hash + length; full re-recording on mismatch) with the sequence for k = 0, for every k of the alphabet: all scalars within 1 (thorough: 2) bit-deviations of 0 and of n-1, 0..64, the boundary alphabet K (2^i+-1, n-1-2^i, around n/2 and 2^255, limb products); k = 1 is the documented shortcut and excluded; non-trivial = all (distinct scalars)")
	r.Bound("scalars", len(ks))
	r.Bound("points", len(pts))
	r.Bound("instrumented_functions", len(verifrt.Names))

	distinct := map[traceSig]bool{}

	for _, p := range pts {
		ref0 := traceMultiply(rec, p, big.NewInt(0), false)

		if traceUndecidable != "" {
			r.Incomplete(traceUndecidable)
			return
		}

		r.Bound("trace_length_field_ops["+p.name+"]", ref0.fieldN)
		r.Bound("trace_scalar_pkg_entries["+p.name+"]", rec.scalarN)
		r.Bound("trace_root_pkg_entries["+p.name+"]", rec.rootN)

		if ref0.fieldN+rec.rootN == 0 {
			r.ToolError("reference trace for %s is empty: instrumentation is not recording", p.name)
			return
		}

		if scheduledTraces {
			// (the first, free-running trace is not comparable with the scheduled ones)
			ref0 = traceMultiply(rec, p, big.NewInt(0), false)
			r.Bound("traced_under_the_cooperative_scheduler", true)
		}

		if traceUndecidable != "" {
			r.Incomplete(traceUndecidable)
			return
		}

		// determinism of the recorder itself
		if again := traceMultiply(rec, p, big.NewInt(0), false); again != ref0 {
			r.ToolError("recorder not deterministic on %s", p.name)
			return
		}

		for i, k := range ks {
			if i%shardN != shardI {
				continue
			}

			r.Transitions.Add(1)
			r.Evals.Add(1)
			r.Distinct.Add(1)
			r.Traces.Add(1)

			got := traceMultiply(rec, p, k, false)
			distinct[got] = true

			if traceUndecidable != "" {
				r.Incomplete(traceUndecidable)
				return
			}

			if got != ref0 {
				key, detail := c19Case(rec, p, k)
				r.Violation(key, detail, Case{"op": "trace", "point": p.name, "k": k.Text(16)})
			}

			if i%2000 == 0 && r.Expired() {
				r.Incomplete(fmt.Sprintf("stopped at scalar %d of %d for point %s", i, len(ks), p.name))
				break
			}
		}

		// scalars with a past (shard 0): the same values as objects that were 1 before a rejected decode changed them
		if shardI == 0 {
			for _, k := range []*big.Int{big.NewInt(5), new(big.Int).Lsh(big.NewInt(1), 100)} { // n+k must fit 32 bytes
				for _, viaHex := range []bool{false, true} {
					k, viaHex := k, viaHex
					if scalarWithPast(k, viaHex) == nil {
						continue
					}

					r.Evals.Add(1)
					r.Traces.Add(1)

					if got := traceMultiplyWith(rec, p, func() *secp256k1.Scalar { return scalarWithPast(k, viaHex) }, false); got != ref0 && traceUndecidable == "" {
						r.Violation("Multiply/field-operation-schedule-depends-on-scalar/scalar-with-a-past",
							fmt.Sprintf("point %s, k=%x held by a scalar that was 1 before a rejected decode of n+k left k in its limbs: %d field operations, %d for a fresh scalar", p.name, k, got.fieldN, ref0.fieldN),
							Case{"op": "trace-past", "point": p.name, "k": k.Text(16), "hex": fmt.Sprint(viaHex)})
					}
				}
			}
		}

		// the shortcut
		one := traceMultiply(rec, p, big.NewInt(1), false)
		r.Bound("trace_length_k=1["+p.name+"]", one.fieldN)
	}

	r.States.Add(int64((len(ks) / shardN) * len(pts)))
	r.Bound("distinct_field_traces_observed", len(distinct))
	r.Sample(Case{"op": "trace", "point": "G", "k": new(big.Int).Sub(ref.N, big.NewInt(1)).Text(16)})
	r.Sample(Case{"op": "trace", "point": "G", "k": "8000000000000000000000000000000000000000000000000000000000000000"})
}

// Replay re-runs one trace comparison.
func ReplayC19(c Case) (bool, string) {
	rec := newRecorder()
	k, _ := new(big.Int).SetString(c["k"], 16)

	for _, p := range points() {
		if p.name == c["point"] && c["op"] == "trace-past" {
			ref0 := traceMultiply(rec, p, big.NewInt(0), false)
			viaHex := c["hex"] == "true"

			if scalarWithPast(k, viaHex) == nil {
				return true, "the tree's rejected decode does not leave k in the limbs: no such object"
			}

			got := traceMultiplyWith(rec, p, func() *secp256k1.Scalar { return scalarWithPast(k, viaHex) }, false)

			return got == ref0, fmt.Sprintf("scalar with a past: %d field operations, %d for k = 0", got.fieldN, ref0.fieldN)
		}

		if p.name == c["point"] {
			key, detail := c19Case(rec, p, k)
			return key == "", key + " " + detail
		}
	}

	return false, "unknown point"
}
