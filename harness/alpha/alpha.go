// Package alpha builds the finite alphabets that the checks enumerate (DESIGN.md section 3.3). Alphabets are
// deterministic; VERIF_SEED only adds members.
package alpha

import (
	"crypto/sha256"
	"fmt"
	"math/big"
	"math/rand"
	"sort"

	"github.com/bytemare/secp256k1/internal/verif/ev"
	"github.com/bytemare/secp256k1/internal/verif/ref"
)

// Limbs returns, for each of the four limb positions of modulus m, the limb values used at that position.
// level 0: {0, 1, 2^64-1, m_i}; level 1 adds 2^63; level 2 adds 2, 2^32-1, 2^32, 2^64-2, m_i-1, m_i+1, R_i.
func Limbs(m *big.Int, level int) [4][]uint64 {
	ml := ref.Limbs(m)
	rl := ref.Limbs(ref.Mod(ref.Two256(), m))

	var out [4][]uint64

	for i := 0; i < 4; i++ {
		vals := []uint64{0, 1, ^uint64(0), ml[i]}
		if level >= 1 {
			vals = append(vals, 1<<63)
		}

		if level >= 2 {
			vals = append(vals, 2, 1<<32-1, 1<<32, ^uint64(0)-1, ml[i]-1, ml[i]+1, rl[i])
		}

		seen := map[uint64]bool{}

		for _, v := range vals {
			if !seen[v] {
				seen[v] = true
				out[i] = append(out[i], v)
			}
		}
	}

	return out
}

// Strings256 returns the product of the limb alphabets as 256-bit integers (not reduced).
func Strings256(m *big.Int, level int) []*big.Int {
	l := Limbs(m, level)

	var out []*big.Int

	for _, a := range l[3] {
		for _, b := range l[2] {
			for _, c := range l[1] {
				for _, d := range l[0] {
					out = append(out, ref.FromLimbs([4]uint64{d, c, b, a}))
				}
			}
		}
	}

	return out
}

// Fixed returns n unstructured 256-bit integers derived from SHA-256(tag || i): deterministic, the same on every
// run, but without the limb structure of the other members - defects that need "ordinary looking" operands (a
// dropped carry in a hand-written multiplication, say) are not triggered by boundary patterns alone.
func Fixed(n int, tag string) []*big.Int {
	out := make([]*big.Int, n)

	for i := range out {
		h := sha256.Sum256([]byte(fmt.Sprintf("verif-fixed-%s-%d", tag, i)))
		out[i] = new(big.Int).SetBytes(h[:])
	}

	return out
}

// DomainConstants returns the values that a confusion between the Montgomery domain and the canonical domain would
// single out: R = 2^256 mod m (the stored form of 1, read as a value), R^2, R^-1, R^-2 and their neighbours.
func DomainConstants(m *big.Int) []*big.Int {
	r := ref.Mod(ref.Two256(), m)
	ri := new(big.Int).ModInverse(r, m)
	one := big.NewInt(1)

	var out []*big.Int

	for _, v := range []*big.Int{r, ref.Mod(new(big.Int).Mul(r, r), m), ri, ref.Mod(new(big.Int).Mul(ri, ri), m)} {
		out = append(out, v, ref.Mod(new(big.Int).Add(v, one), m), ref.Mod(new(big.Int).Sub(v, one), m), ref.Mod(new(big.Int).Neg(v), m))
	}

	return out
}

// Val is a member of a value alphabet: a canonical value in [0, m) together with its Montgomery limbs.
type Val struct {
	V   *big.Int
	Raw [4]uint64
}

// Values returns the value alphabet V_m of DESIGN.md 3.3: every limb-product string taken once as a canonical
// value and once as a raw Montgomery representation, closed once under x -> m-x and x -> x+-1, plus 0..64 and
// m-64..m-1. Sorted by value, so enumeration is "simplest first".
func Values(m *big.Int, level int) []Val {
	set := map[string]*big.Int{}
	add := func(v *big.Int) {
		v = ref.Mod(v, m)
		set[v.Text(16)] = v
	}

	var base []*big.Int

	for _, s := range Strings256(m, level) {
		if s.Cmp(m) < 0 {
			base = append(base, s, ref.Unmont(ref.Limbs(s), m))
		} else {
			// s - m is a small value just above a wrap-around; still interesting as a canonical value.
			base = append(base, new(big.Int).Sub(s, m))
		}
	}

	for _, v := range Fixed(12+12*level, "values") {
		base = append(base, ref.Mod(v, m))
	}

	base = append(base, DomainConstants(m)...)

	if seed := ev.Seed(); seed != 0 {
		rng := rand.New(rand.NewSource(seed))
		for i := 0; i < 8; i++ {
			b := make([]byte, 32)
			rng.Read(b)
			base = append(base, ref.Mod(ref.OS2IP(b), m))
		}
	}

	one := big.NewInt(1)

	for _, v := range base {
		neg := new(big.Int).Sub(m, v)
		for _, w := range []*big.Int{v, neg} {
			add(w)
			add(new(big.Int).Add(w, one))
			add(new(big.Int).Sub(w, one))
		}
	}

	for i := int64(0); i <= 64; i++ {
		add(big.NewInt(i))
		add(new(big.Int).Sub(m, big.NewInt(i)))
	}

	out := make([]Val, 0, len(set))
	for _, v := range set {
		out = append(out, Val{V: v, Raw: ref.Mont(v, m)})
	}

	sort.Slice(out, func(i, j int) bool { return out[i].V.Cmp(out[j].V) < 0 })

	return out
}

// Thin returns about n members of vals, evenly spaced, always including the first and last 8.
func Thin(vals []Val, n int) []Val {
	if len(vals) <= n {
		return vals
	}

	var out []Val

	step := len(vals) / n
	if step < 1 {
		step = 1
	}

	for i, v := range vals {
		if i < 8 || i >= len(vals)-8 || i%step == 0 {
			out = append(out, v)
		}
	}

	return out
}

// Scalars returns the scalar alphabet K of DESIGN.md 3.3 for the ladder and the bit expansion, all in [0, n).
func Scalars(level int) []*big.Int {
	n := ref.N
	set := map[string]*big.Int{}
	add := func(v *big.Int) {
		v = ref.Mod(v, n)
		set[v.Text(16)] = v
	}

	small := int64(64)
	if level >= 1 {
		small = 300
	}

	if level >= 2 {
		small = 1024
	}

	one := big.NewInt(1)

	for i := int64(0); i <= small; i++ {
		add(big.NewInt(i))
	}

	for i := int64(0); i <= 64; i++ {
		add(new(big.Int).Sub(n, big.NewInt(i+1)))
	}

	for i := uint(0); i < 256; i++ {
		p := new(big.Int).Lsh(one, i)
		add(p)
		add(new(big.Int).Add(p, one))
		add(new(big.Int).Sub(p, one))
		add(new(big.Int).Sub(new(big.Int).Sub(n, one), p))

		if level >= 1 {
			for j := uint(0); j < i; j += 17 {
				add(new(big.Int).Sub(p, new(big.Int).Lsh(one, j)))
			}
		}
	}

	// runs of ones (2^i - 2^j) of lengths 2, 3, 4, 5, 8 at every position, every nibble value at every nibble
	// position and a few byte values at every byte position: what a windowed or word-wise ladder would distinguish
	for i := uint(0); i < 256; i++ {
		for _, l := range []uint{2, 3, 4, 5, 8} {
			if i+l <= 256 {
				add(new(big.Int).Lsh(new(big.Int).Sub(new(big.Int).Lsh(one, l), one), i))
			}
		}
	}

	for i := uint(0); i < 64; i++ {
		for v := int64(1); v < 16; v++ {
			add(new(big.Int).Lsh(big.NewInt(v), 4*i))
		}
	}

	for i := uint(0); i < 32; i++ {
		for _, v := range []int64{0x80, 0xff, 0x7f, 0x55, 0xaa} {
			add(new(big.Int).Lsh(big.NewInt(v), 8*i))
		}
	}

	for _, v := range Fixed(16+16*level, "scalars") {
		add(v)
	}

	for _, v := range DomainConstants(n) {
		add(v)
	}

	// single-bit neighbours of the *stored form* of 1 and of 0: a hand-written "is this scalar 1 / 0" that slips on
	// one limb or one operator accepts a near miss of the Montgomery limbs, not of the canonical value
	for _, v := range StoredNeighbours(n) {
		add(v)
	}

	half := new(big.Int).Rsh(n, 1)
	for i := int64(-2); i <= 2; i++ {
		add(new(big.Int).Add(half, big.NewInt(i)))
		add(new(big.Int).Add(new(big.Int).Lsh(one, 255), big.NewInt(i)))
	}

	for _, s := range Strings256(n, 0) {
		add(s)
	}

	// single non-zero limb
	l := Limbs(n, 2)
	for pos := 0; pos < 4; pos++ {
		for _, v := range l[pos] {
			var x [4]uint64
			x[pos] = v
			add(ref.FromLimbs(x))
		}
	}

	if level >= 2 {
		for _, v := range Values(n, 1) {
			add(v.V)
		}
	}

	out := make([]*big.Int, 0, len(set))
	for _, v := range set {
		out = append(out, v)
	}

	sort.Slice(out, func(i, j int) bool { return out[i].Cmp(out[j]) < 0 })

	return out
}

// WindowScalars returns the scalars a windowed or table-driven multiplication distinguishes: a single window digit
// d * 2^(w*i) for every width w in 5..8, every digit value and every aligned position; every digit of width 4 and 5
// at every bit offset (sliding windows); and two adjacent aligned windows with digits around the signed-recoding
// threshold 2^(w-1). All reduced into [0, n).
func WindowScalars() []*big.Int {
	set := map[string]*big.Int{}
	add := func(v *big.Int) {
		v = ref.Mod(v, ref.N)
		set[v.Text(16)] = v
	}

	for w := uint(5); w <= 8; w++ {
		for pos := uint(0); pos < 256; pos += w {
			for d := int64(1); d < 1<<w; d++ {
				add(new(big.Int).Lsh(big.NewInt(d), pos))
			}
		}
	}

	for w := uint(4); w <= 5; w++ {
		for pos := uint(0); pos < 256; pos++ {
			for d := int64(1); d < 1<<w; d += 2 {
				add(new(big.Int).Lsh(big.NewInt(d), pos))
			}
		}
	}

	for _, w := range []uint{4, 5, 6, 8} {
		h := int64(1) << (w - 1)
		ds := []int64{1, h - 1, h, h + 1, 2*h - 1}

		for pos := uint(0); pos+w < 256; pos += w {
			for _, d1 := range ds {
				for _, d2 := range ds {
					v := new(big.Int).Lsh(big.NewInt(d2), w)
					v.Add(v, big.NewInt(d1))
					add(v.Lsh(v, pos))
				}
			}
		}
	}

	out := make([]*big.Int, 0, len(set))
	for _, v := range set {
		out = append(out, v)
	}

	sort.Slice(out, func(i, j int) bool { return out[i].Cmp(out[j]) < 0 })

	return out
}

// StoredNeighbours returns the values whose Montgomery limbs differ from those of 1 (R mod m) and of 0 in exactly one
// bit.
func StoredNeighbours(m *big.Int) []*big.Int {
	var out []*big.Int

	for _, base := range [][4]uint64{ref.Mont(big.NewInt(1), m), {}} {
		for b := 0; b < 256; b++ {
			l := base
			l[b/64] ^= 1 << (b % 64)

			if raw := ref.FromLimbs(l); raw.Cmp(m) < 0 {
				out = append(out, ref.Unmont(l, m))
			}
		}
	}

	return out
}

// EndoScalars returns the scalars at which addition formulas that are not complete degenerate on secp256k1 inside a
// multiplication. The curve has the endomorphism (x, y) -> (beta x, y) = [lambda](x, y), so for every point P the
// points -[lambda]P and -[lambda^2]P have the opposite y and a DIFFERENT x: "y1 + y2 = 0 only when Q = -P" is false,
// and unified or Jacobian formulas that rely on it return garbage for exactly these pairs. A multiplication adds such
// a pair when an accumulated multiple j and the addend d satisfy j = -lambda^e d (mod n): window methods at
// k = d (1 - lambda^e) with the last digit d, ladders and double-and-add at prefixes lambda^e, -lambda^e / 2, ...
// The members: +- d b / 2^i mod n for b in {lambda, lambda^2, 1 - lambda, 1 - lambda^2}, d up to the digit bound,
// i up to the shift bound. lambda is the cube root of unity mod n that matches beta in ref (checked by the caller's
// oracle: wrong results would show as violations on the unchanged tree).
func EndoScalars(maxDigit, maxShift int) []*big.Int {
	lambda, _ := new(big.Int).SetString("5363ad4cc05c30e0a5261c028812645a122e22ea20816678df02967c1b23bd72", 16)
	lambda2 := ref.Mod(new(big.Int).Mul(lambda, lambda), ref.N)
	one := big.NewInt(1)

	if ref.Mod(new(big.Int).Mul(lambda2, lambda), ref.N).Cmp(one) != 0 {
		panic("alpha: lambda is not a cube root of unity mod n")
	}

	bases := []*big.Int{lambda, lambda2, ref.Mod(new(big.Int).Sub(one, lambda), ref.N), ref.Mod(new(big.Int).Sub(one, lambda2), ref.N)}
	set := map[string]*big.Int{}
	half := new(big.Int).ModInverse(big.NewInt(2), ref.N)

	for _, b := range bases {
		for d := 1; d <= maxDigit; d++ {
			v := ref.Mod(new(big.Int).Mul(b, big.NewInt(int64(d))), ref.N)

			for i := 0; i <= maxShift; i++ {
				set[v.Text(16)] = v
				neg := ref.Mod(new(big.Int).Neg(v), ref.N)
				set[neg.Text(16)] = neg
				v = ref.Mod(new(big.Int).Mul(v, half), ref.N)
			}
		}
	}

	// small fractions b/a mod n: a ladder or double-and-add holds the prefix multiples [j]P and [j+1]P (or [2j]P and
	// P); formulas with an exceptional pair that is a small linear relation between the two - Q = -2P for a chord
	// rule that takes "Q on the tangent at P" for P = Q, Q = 2P, Q = -P/2 - meet it when a*j + b = 0 (mod n) for
	// small a, b. Members: j = -b/a, its doubles 2j, 2j+1, 4j..4j+3 (as integers below n) and neighbours.
	for a := int64(2); a <= 8; a++ {
		ai := new(big.Int).ModInverse(big.NewInt(a), ref.N)

		for b := int64(-4); b <= 4; b++ {
			if b == 0 {
				continue
			}

			j := ref.Mod(new(big.Int).Mul(big.NewInt(-b), ai), ref.N)

			for _, v := range []*big.Int{j, new(big.Int).Add(j, one), new(big.Int).Sub(j, one), new(big.Int).Lsh(j, 1), new(big.Int).Add(new(big.Int).Lsh(j, 1), one),
				new(big.Int).Lsh(j, 2), new(big.Int).Add(new(big.Int).Lsh(j, 2), one), new(big.Int).Add(new(big.Int).Lsh(j, 2), big.NewInt(2)), new(big.Int).Add(new(big.Int).Lsh(j, 2), big.NewInt(3))} {
				if v.Sign() > 0 && v.Cmp(ref.N) < 0 {
					set[v.Text(16)] = v
				}
			}
		}
	}

	// rounding boundaries of the lambda decomposition k = k1 + k2*lambda: with the reduced basis (a1, b1), (a2, b2)
	// of the lattice {(x, y): x + y*lambda = 0 mod n} the coefficients are c1 = round(b2*k/n), c2 = round(-b1*k/n);
	// an implementation that truncates, or rounds with too few bits of the precomputed quotients, is off by one
	// lattice vector exactly for the k just around (j + 1/2) * n / g, g in {|b1|, b2 = a1, a2}
	for _, gs := range []string{"3086d221a7d46bcde86c90e49284eb15", "e4437ed6010e88286f547fa90abfe4c3", "114ca50f7a8e2f3f657c1108d9d44cfd8"} {
		g, _ := new(big.Int).SetString(gs, 16)
		js := []*big.Int{big.NewInt(0), one, big.NewInt(2), new(big.Int).Rsh(g, 1), new(big.Int).Sub(g, one), new(big.Int).Sub(g, big.NewInt(2))}

		for _, f := range Fixed(6, "glv-rounding") {
			js = append(js, new(big.Int).Mod(f, g))
		}

		for _, j := range js {
			// k = floor((2j + 1) * n / (2g)) and neighbours
			num := new(big.Int).Mul(new(big.Int).Add(new(big.Int).Lsh(j, 1), one), ref.N)
			k0 := num.Div(num, new(big.Int).Lsh(g, 1))

			for d := int64(-2); d <= 2; d++ {
				v := new(big.Int).Add(k0, big.NewInt(d))
				if v.Sign() > 0 && v.Cmp(ref.N) < 0 {
					set[v.Text(16)] = v
				}
			}
		}
	}

	out := make([]*big.Int, 0, len(set))
	for _, v := range set {
		out = append(out, v)
	}

	sort.Slice(out, func(i, j int) bool { return out[i].Cmp(out[j]) < 0 })

	return out
}
