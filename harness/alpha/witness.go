package alpha

import (
	"math/big"
	"sort"
	"sync"

	"github.com/bytemare/secp256k1/internal/verif/ref"
)

// Witnesses are alphabet members that are solved rather than patterned: operands of the word-by-word Montgomery
// arithmetic chosen so that the *quotient digits* of the reduction (the multiples of m added in each round) or the
// *branch and result of the final conditional subtraction* take boundary values. Limb patterns of the operands
// themselves (0, 1, 2^64-1, m_i ...) leave most quotient digits looking random, and some paths - the final
// subtraction of ToMontgomery over the base field, which is taken for only about 2^63 of the 2^256 inputs - are
// never reached by them at all. Everything here is derived with integer arithmetic from the modulus alone
// (one linear congruence per member, one two-dimensional lattice reduction for the rare branch); nothing is
// searched or sampled.
type Witnesses struct {
	// FromMont are canonical values whose Montgomery limbs x satisfy -x/m mod 2^256 = M for a structured M:
	// the quotient digits of FromMontgomery(x) are the limbs of M.
	FromMont []*big.Int
	// ToMont are canonical values x < m for which the quotient digits of ToMontgomery(x) are the limbs of a
	// structured M, followed by members for which ToMontgomery takes its final subtraction with a chosen result.
	ToMont []*big.Int
	// ToMontSubtract counts the trailing members of ToMont that take the final subtraction.
	ToMontSubtract int
	// Pairs are canonical (a, b) for which the quotient digits of Mul(a, b) are the limbs of a structured M.
	Pairs [][2]*big.Int
	// ProductBoundary counts the pairs of Pairs that are product-boundary pairs (a*b within a few units of 0 / m).
	ProductBoundary int
	// Digits are the boundary quotient digits used.
	Digits []uint64
	// LowLimbs are 64-bit values v for which the first quotient digit of ToMontgomery((v,0,0,0)) is a boundary
	// digit.
	LowLimbs []uint64
}

var (
	witMu    sync.Mutex
	witCache = map[string]*Witnesses{}
)

// boundaryDigits returns quotient digits q for which q*m has limbs at a carry boundary: with c = 2^256 - m,
// q*m = q*2^256 - q*c, so the limbs of q*m are all-ones or zero in a position exactly when q*c is just below or just
// above a power of two, i.e. q = floor(2^j/c) or that plus one.
func boundaryDigits(m *big.Int) []uint64 {
	c := new(big.Int).Sub(ref.Two256(), m)
	set := map[uint64]bool{1: true, 1 << 63: true, ^uint64(0): true, 2: true, ^uint64(0) - 1: true}
	one := big.NewInt(1)

	for j := uint(1); j <= 330; j++ {
		z := new(big.Int).Div(new(big.Int).Lsh(one, j), c)
		for d := int64(0); d <= 1; d++ {
			v := new(big.Int).Add(z, big.NewInt(d))
			if v.Sign() > 0 && v.BitLen() <= 64 {
				set[v.Uint64()] = true
			}
		}
	}

	// digits q for which a limb of the product q*m (the value added in a reduction round) is zero or all ones:
	// q*m mod 2^(64(k+1)) inside the lowest resp. highest 2^(64k) - the case in which a carry of the round's
	// addition chain is raised by its carry-in alone
	two64 := new(big.Int).Lsh(one, 64)

	for k := uint(1); k <= 3; k++ {
		n := new(big.Int).Lsh(one, 64*(k+1))
		w := new(big.Int).Lsh(one, 64*k)

		for _, q := range SolveModRange(m, n, two64, big.NewInt(0), new(big.Int).Sub(w, one), 3) {
			if q.Sign() > 0 {
				set[q.Uint64()] = true
			}
		}

		for _, q := range SolveModRange(m, n, two64, new(big.Int).Sub(n, w), new(big.Int).Sub(n, one), 3) {
			set[q.Uint64()] = true
		}
	}

	out := make([]uint64, 0, len(set))
	for v := range set {
		out = append(out, v)
	}

	sort.Slice(out, func(i, j int) bool { return out[i] < out[j] })

	return out
}

// quotientStrings returns the structured 256-bit quotients M: one boundary digit in one position with the other
// digits all zero or all ones, and the full product of a six-value digit set.
func quotientStrings(m *big.Int, digits []uint64) []*big.Int {
	var out []*big.Int

	for _, d := range digits {
		for pos := 0; pos < 4; pos++ {
			var z, f [4]uint64
			f = [4]uint64{^uint64(0), ^uint64(0), ^uint64(0), ^uint64(0)}
			z[pos], f[pos] = d, d
			out = append(out, ref.FromLimbs(z), ref.FromLimbs(f))
		}
	}

	// the largest boundary digit below 2^64 that is not a plain pattern, and its successor
	c := new(big.Int).Sub(ref.Two256(), m)
	zmax := new(big.Int).Div(new(big.Int).Lsh(big.NewInt(1), uint(c.BitLen()+63)), c).Uint64()
	ql := []uint64{0, 1, 1 << 63, ^uint64(0), zmax, zmax + 1}

	for _, a := range ql {
		for _, b := range ql {
			for _, cc := range ql {
				for _, d := range ql {
					out = append(out, ref.FromLimbs([4]uint64{a, b, cc, d}))
				}
			}
		}
	}

	return out
}

// montRun simulates S = (x*k + M*m) / 2^256 with M = -x*k/m mod 2^256, the value a word-by-word Montgomery
// multiplication of x by k holds before its final conditional subtraction.
func montRun(x, k, m *big.Int) (s, quo *big.Int) {
	r := ref.Two256()
	minv := new(big.Int).ModInverse(m, r)
	xk := new(big.Int).Mul(x, k)
	quo = new(big.Int).Mul(xk, minv)
	quo.Neg(quo).Mod(quo, r)
	s = new(big.Int).Mul(quo, m)
	s.Add(s, xk).Rsh(s, 256)

	return s, quo
}

// gauss reduces the basis (u, v) of a two-dimensional lattice (Lagrange-Gauss).
func gauss(u, v [2]*big.Int) (a, b [2]*big.Int) {
	norm := func(w [2]*big.Int) *big.Int {
		return new(big.Int).Add(new(big.Int).Mul(w[0], w[0]), new(big.Int).Mul(w[1], w[1]))
	}
	dot := func(w, z [2]*big.Int) *big.Int {
		return new(big.Int).Add(new(big.Int).Mul(w[0], z[0]), new(big.Int).Mul(w[1], z[1]))
	}

	if norm(u).Cmp(norm(v)) > 0 {
		u, v = v, u
	}

	for {
		nu := norm(u)
		if nu.Sign() == 0 {
			return u, v
		}

		// mu = round(<u,v>/<u,u>)
		d := dot(u, v)
		two := big.NewInt(2)
		num := new(big.Int).Add(new(big.Int).Mul(d, two), nu)
		mu := new(big.Int).Div(num, new(big.Int).Mul(nu, two)) // floor((2d+nu)/(2nu)) = round(d/nu)
		v = [2]*big.Int{
			new(big.Int).Sub(v[0], new(big.Int).Mul(mu, u[0])),
			new(big.Int).Sub(v[1], new(big.Int).Mul(mu, u[1])),
		}

		if norm(v).Cmp(nu) >= 0 {
			return u, v
		}

		u, v = v, u
	}
}

func ceilDiv(a, b *big.Int) *big.Int { // b > 0
	q, r := new(big.Int).DivMod(a, b, new(big.Int))
	if r.Sign() != 0 {
		q.Add(q, big.NewInt(1))
	}

	return q
}

// betaRange returns the integers beta with lo <= base + beta*step <= hi.
func betaRange(base, step, lo, hi *big.Int) (blo, bhi *big.Int, ok bool) {
	if step.Sign() == 0 {
		if base.Cmp(lo) >= 0 && base.Cmp(hi) <= 0 {
			return nil, nil, true // unconstrained
		}

		return nil, nil, false
	}

	a := new(big.Int).Sub(lo, base)
	b := new(big.Int).Sub(hi, base)
	s := new(big.Int).Set(step)

	if s.Sign() < 0 {
		a, b = new(big.Int).Neg(b), new(big.Int).Neg(a)
		s.Neg(s)
	}

	blo = ceilDiv(a, s)
	bhi = new(big.Int).Div(b, s) // floor for positive divisor (Euclidean division)

	return blo, bhi, blo.Cmp(bhi) <= 0
}

// boxPoints enumerates points of the lattice spanned by b1, b2 inside the box [x0lo, x0hi] x [x1lo, x1hi]: the basis
// is reduced (Lagrange-Gauss), the coefficient of the first reduced vector runs over the range the box corners
// allow (at most 2^14 equally spaced values of it when the range is longer) and for each the admissible interval of
// the second coefficient is computed exactly; its two ends and its middle are returned.
func boxPoints(b1, b2 [2]*big.Int, x0lo, x0hi, x1lo, x1hi *big.Int) [][2]*big.Int {
	u, v := gauss(b1, b2)
	det := new(big.Int).Sub(new(big.Int).Mul(u[0], v[1]), new(big.Int).Mul(u[1], v[0]))

	if det.Sign() == 0 {
		return nil
	}

	var amin, amax *big.Int

	for _, y := range []*big.Int{x0lo, x0hi} {
		for _, j := range []*big.Int{x1lo, x1hi} {
			num := new(big.Int).Sub(new(big.Int).Mul(y, v[1]), new(big.Int).Mul(j, v[0]))
			a := new(big.Int).Quo(num, det)

			if amin == nil || a.Cmp(amin) < 0 {
				amin = new(big.Int).Set(a)
			}

			if amax == nil || a.Cmp(amax) > 0 {
				amax = new(big.Int).Set(a)
			}
		}
	}

	amin.Sub(amin, big.NewInt(1))
	amax.Add(amax, big.NewInt(1))

	span := new(big.Int).Sub(amax, amin)
	steps := int64(1 << 14)
	stride := big.NewInt(1)

	if span.Cmp(big.NewInt(steps)) > 0 {
		stride = new(big.Int).Div(span, big.NewInt(steps))
	} else {
		steps = span.Int64() + 1
	}

	var out [][2]*big.Int

	for i := int64(0); i <= steps; i++ {
		a := new(big.Int).Add(amin, new(big.Int).Mul(stride, big.NewInt(i)))
		by := new(big.Int).Mul(a, u[0])
		bj := new(big.Int).Mul(a, u[1])

		lo1, hi1, ok1 := betaRange(by, v[0], x0lo, x0hi)
		lo2, hi2, ok2 := betaRange(bj, v[1], x1lo, x1hi)

		if !ok1 || !ok2 {
			continue
		}

		lo, hi := lo1, hi1

		if lo == nil {
			lo, hi = lo2, hi2
		} else if lo2 != nil {
			if lo2.Cmp(lo) > 0 {
				lo = lo2
			}

			if hi2.Cmp(hi) < 0 {
				hi = hi2
			}
		}

		if lo == nil || lo.Cmp(hi) > 0 {
			continue
		}

		mid := new(big.Int).Rsh(new(big.Int).Add(lo, hi), 1)

		for _, b := range []*big.Int{lo, mid, hi} {
			out = append(out, [2]*big.Int{
				new(big.Int).Add(by, new(big.Int).Mul(b, v[0])),
				new(big.Int).Add(bj, new(big.Int).Mul(b, v[1])),
			})
		}
	}

	return out
}

// SolveModRange returns up to limit values x in [0, xmax) with lo <= x*b mod n <= hi, spread over the range of
// x*b mod n: the points (x, x*b mod n) form a lattice of determinant n.
func SolveModRange(b, n, xmax, lo, hi *big.Int, limit int) []*big.Int {
	pts := boxPoints([2]*big.Int{big.NewInt(1), ref.Mod(b, n)}, [2]*big.Int{big.NewInt(0), new(big.Int).Set(n)},
		big.NewInt(0), new(big.Int).Sub(xmax, big.NewInt(1)), lo, hi)

	seen := map[string]bool{}

	var xs []*big.Int

	for _, p := range pts {
		x := p[0]
		if x.Sign() < 0 || x.Cmp(xmax) >= 0 || seen[x.Text(16)] {
			continue
		}

		y := ref.Mod(new(big.Int).Mul(x, b), n)
		if y.Cmp(lo) < 0 || y.Cmp(hi) > 0 {
			continue
		}

		seen[x.Text(16)] = true
		xs = append(xs, x)
	}

	sort.Slice(xs, func(i, j int) bool { return xs[i].Cmp(xs[j]) < 0 })

	if len(xs) <= limit {
		return xs
	}

	var out []*big.Int
	for i := 0; i < limit; i++ {
		out = append(out, xs[i*(len(xs)-1)/(limit-1)])
	}

	return out
}

// subtractWitnesses returns inputs x < m for which the Montgomery multiplication of x by k ends with S >= m, i.e.
// takes the final subtraction, with result y = S - m in [ylo, yhi]. With M = 2^256 - j (j >= 1) the identity
// x*k = y*2^256 + j*m must hold, so (y, j) runs over the lattice {y*2^256 + j*m = 0 mod k}; its points inside the
// box are enumerated from a reduced basis, at most limit of them, spread over the box.
func subtractWitnesses(m, k, ylo, yhi *big.Int, limit int) []*big.Int {
	r := ref.Two256()

	if new(big.Int).GCD(nil, nil, m, k).Cmp(big.NewInt(1)) != 0 {
		return nil
	}

	g := new(big.Int).Mul(r, new(big.Int).ModInverse(m, k))
	g.Neg(g).Mod(g, k)

	jlo := big.NewInt(1)
	jhi := new(big.Int).Sub(k, ylo) // x < m forces y*2^256 + j*m < m*k, hence j < k - y
	if jhi.Cmp(r) > 0 {
		jhi = r
	}

	type pt struct{ y, x *big.Int }

	var found []pt

	seen := map[string]bool{}

	for _, q := range boxPoints([2]*big.Int{big.NewInt(1), g}, [2]*big.Int{big.NewInt(0), new(big.Int).Set(k)}, ylo, yhi, jlo, jhi) {
		y, j := q[0], q[1]

		num := new(big.Int).Add(new(big.Int).Mul(y, r), new(big.Int).Mul(j, m))
		x, rem := new(big.Int).DivMod(num, k, new(big.Int))

		if rem.Sign() != 0 || x.Cmp(m) >= 0 || x.Sign() < 0 || seen[x.Text(16)] {
			continue
		}

		// confirm on the simulation: the run before the final subtraction is y + m
		if s, _ := montRun(x, k, m); s.Cmp(new(big.Int).Add(y, m)) != 0 {
			continue
		}

		seen[x.Text(16)] = true
		found = append(found, pt{y, x})
	}

	sort.Slice(found, func(i, j int) bool { return found[i].y.Cmp(found[j].y) < 0 })

	var out []*big.Int

	if len(found) <= limit {
		for _, p := range found {
			out = append(out, p.x)
		}

		return out
	}

	for i := 0; i < limit; i++ {
		out = append(out, found[i*(len(found)-1)/(limit-1)].x)
	}

	return out
}

// ReductionWitnesses returns the solved alphabet members for modulus m (the base field prime or the group order).
func ReductionWitnesses(m *big.Int) *Witnesses {
	witMu.Lock()
	defer witMu.Unlock()

	if w, ok := witCache[m.Text(16)]; ok {
		return w
	}

	r := ref.Two256()
	w := &Witnesses{Digits: boundaryDigits(m)}
	ms := quotientStrings(m, w.Digits)
	r2 := ref.Mod(new(big.Int).Mul(r, r), m)
	seenF, seenT := map[string]bool{}, map[string]bool{}

	// solve x*k = -M*m (mod 2^256) for x < m; with k = 2^e * k' there is a solution only if 2^e divides M, and then
	// 2^e of them, of which the first four are taken
	solve := func(mm, k *big.Int) []*big.Int {
		e := k.TrailingZeroBits()
		t := new(big.Int).Mul(mm, m)
		t.Neg(t).Mod(t, r)

		if e >= 256 || (t.Sign() != 0 && t.TrailingZeroBits() < e) {
			return nil
		}

		mod := new(big.Int).Lsh(big.NewInt(1), 256-e)
		x0 := new(big.Int).Rsh(t, e)
		x0.Mul(x0, new(big.Int).ModInverse(new(big.Int).Rsh(k, e), mod)).Mod(x0, mod)

		var out []*big.Int

		for i := int64(0); i < 4 && i < int64(1)<<min(e, 8); i++ {
			x := new(big.Int).Add(x0, new(big.Int).Mul(mod, big.NewInt(i)))
			if x.Cmp(m) >= 0 {
				continue
			}

			if _, q := montRun(x, k, m); q.Cmp(mm) != 0 {
				panic("alpha: quotient witness does not reproduce its quotient")
			}

			out = append(out, x)
		}

		return out
	}

	// multipliers, as canonical values
	var mults []*big.Int

	for _, v := range []int64{1, 2, 3, 7, 21, -1, -3} {
		mults = append(mults, ref.Mod(big.NewInt(v), m))
	}

	for _, mm := range ms {
		for _, x := range solve(mm, big.NewInt(1)) {
			if !seenF[x.Text(16)] {
				seenF[x.Text(16)] = true
				w.FromMont = append(w.FromMont, ref.Unmont(ref.Limbs(x), m))
			}
		}

		for _, x := range solve(mm, r2) {
			if !seenT[x.Text(16)] {
				seenT[x.Text(16)] = true
				w.ToMont = append(w.ToMont, x)
			}
		}

		for _, b := range mults {
			for _, x := range solve(mm, ref.FromLimbs(ref.Mont(b, m))) {
				w.Pairs = append(w.Pairs, [2]*big.Int{ref.Unmont(ref.Limbs(x), m), b})
			}
		}
	}

	// first quotient digit of ToMontgomery((v,0,0,0)) = v * r2_0 * (-1/m_0) mod 2^64; r2_0 = 2^e * odd reaches
	// only the digits divisible by 2^e
	ml, r2l := ref.Limbs(m), ref.Limbs(r2)
	if r2l[0] != 0 {
		e := uint(0)
		for r2l[0]>>e&1 == 0 {
			e++
		}

		mod := new(big.Int).Lsh(big.NewInt(1), 64-e)
		inv := new(big.Int).ModInverse(new(big.Int).SetUint64(r2l[0]>>e), mod).Uint64()

		for _, q := range w.Digits {
			t := -(q * ml[0])
			if t&(1<<e-1) != 0 {
				continue
			}

			v := (t >> e) * inv & (1<<(64-e) - 1)
			w.LowLimbs = append(w.LowLimbs, v)

			if e > 0 {
				w.LowLimbs = append(w.LowLimbs, v|1<<63)
			}
		}
	}

	// final subtraction of ToMontgomery with the result in each limb range that can occur (S - m < r2 + 1)
	one := big.NewInt(1)
	top := new(big.Int).Set(r2)

	var sub []*big.Int

	for lo := uint(0); lo < 256; lo += 64 {
		ylo := new(big.Int).Lsh(one, lo)
		if lo == 0 {
			ylo = big.NewInt(0)
		}

		yhi := new(big.Int).Sub(new(big.Int).Lsh(one, lo+64), one)

		if ylo.Cmp(top) > 0 {
			break
		}

		if yhi.Cmp(top) > 0 {
			yhi = top
		}

		sub = append(sub, subtractWitnesses(m, r2, ylo, yhi, 24)...)
	}

	for _, x := range sub {
		if !seenT[x.Text(16)] {
			seenT[x.Text(16)] = true
			w.ToMont = append(w.ToMont, x)
			w.ToMontSubtract++
		}
	}

	// product-boundary pairs: a * b congruent to a small target t, in each of the three readings a multiplication
	// routine can have of its operands and result - canonical values (a*b = t), stored limbs as integers
	// (aR * bR = t) and the stored result (a*b*R = t). Any reduction other than Fiat's word-wise Montgomery (Barrett,
	// folding, a lazy final subtraction) has its rare correction step where the residue is within a few units of 0,
	// of m or of 2^256 - m.
	{
		rInv := new(big.Int).ModInverse(ref.Mod(r, m), m)
		var as []*big.Int

		for i, v := range Strings256(m, 0) {
			if i%7 == 3 && v.Sign() != 0 && v.Cmp(m) < 0 {
				as = append(as, v)
			}
		}

		for _, f := range Fixed(24, "product-boundary") {
			as = append(as, ref.Mod(f, m))
		}

		c := ref.Mod(r, m)
		ts := []*big.Int{big.NewInt(1), big.NewInt(2), big.NewInt(3), new(big.Int).Lsh(one, 32), new(big.Int).Lsh(one, 64), c, new(big.Int).Add(c, one), new(big.Int).Sub(c, one), new(big.Int).Lsh(c, 1)}

		for _, a := range as {
			aInv := new(big.Int).ModInverse(a, m)
			if aInv == nil {
				continue
			}

			for _, t := range ts {
				for _, sgn := range []int{1, -1} {
					tt := ref.Mod(new(big.Int).Mul(t, big.NewInt(int64(sgn))), m)
					b0 := ref.Mod(new(big.Int).Mul(tt, aInv), m) // a*b = t
					b1 := ref.Mod(new(big.Int).Mul(b0, rInv), m) // a*b*R = t
					b2 := ref.Mod(new(big.Int).Mul(b1, rInv), m) // aR*bR = t
					w.Pairs = append(w.Pairs, [2]*big.Int{a, b0}, [2]*big.Int{a, b1}, [2]*big.Int{a, b2})
					w.ProductBoundary += 3
				}
			}
		}
	}

	witCache[m.Text(16)] = w

	return w
}

// WithWitnesses returns vals extended by the solved members for m (FromMont and ToMont) and by the raw neighbours
// of the level-1 limb products, sorted by value. It is meant
// for the unary sweeps; pair sweeps take Witnesses.Pairs as an explicit list instead of squaring the larger set.
func WithWitnesses(vals []Val, m *big.Int) []Val {
	w := ReductionWitnesses(m)
	seen := make(map[string]bool, len(vals))

	out := make([]Val, 0, len(vals)+len(w.FromMont)+len(w.ToMont))

	for _, v := range vals {
		seen[v.V.Text(16)] = true
		out = append(out, v)
	}

	for _, l := range [][]*big.Int{w.FromMont, w.ToMont} {
		for _, v := range l {
			if !seen[v.Text(16)] {
				seen[v.Text(16)] = true
				out = append(out, Val{V: v, Raw: ref.Mont(v, m)})
			}
		}
	}

	for _, v := range RawNeighbours(m, 1) {
		if !seen[v.V.Text(16)] {
			seen[v.V.Text(16)] = true
			out = append(out, v)
		}
	}

	sort.Slice(out, func(i, j int) bool { return out[i].V.Cmp(out[j].V) < 0 })

	return out
}

// RawNeighbours returns the members whose *Montgomery limbs* are a limb-product pattern plus or minus one, and the
// half-range boundaries 2^255, (m+-1)/2, m-2^255 with their neighbours: the closure of the value alphabet under
// x -> x+-1 acts on canonical values, which moves the stored limbs by +-R, so representations one unit away from a
// pattern (all-ones limbs below a 2^63 top limb, say) are not reached by it.
func RawNeighbours(m *big.Int, level int) []Val {
	set := map[string]*big.Int{}
	one := big.NewInt(1)
	add := func(raw *big.Int) {
		for _, d := range []int64{-1, 0, 1} {
			v := new(big.Int).Add(raw, big.NewInt(d))
			if v.Sign() >= 0 && v.Cmp(m) < 0 {
				set[v.Text(16)] = v
			}
		}
	}

	for _, s := range Strings256(m, level) {
		add(s)
	}

	half := new(big.Int).Lsh(one, 255)
	add(half)
	add(new(big.Int).Sub(m, half))
	add(new(big.Int).Rsh(m, 1))

	for i := uint(64); i < 256; i += 64 {
		add(new(big.Int).Lsh(one, i))
		add(new(big.Int).Sub(new(big.Int).Lsh(one, i+63), one))
	}

	out := make([]Val, 0, len(set))
	for _, raw := range set {
		out = append(out, Val{V: ref.Unmont(ref.Limbs(raw), m), Raw: ref.Limbs(raw)})
	}

	sort.Slice(out, func(i, j int) bool { return out[i].V.Cmp(out[j].V) < 0 })

	return out
}
