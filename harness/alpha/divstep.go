package alpha

import (
	"math/big"
	"sort"
	"sync"
)

// Division-step steered members.
//
// A modular inversion has three textbook implementations: a Fermat addition chain (a fixed sequence of
// multiplications and squarings, covered for every operand by the exponent-domain parts), the binary extended
// Euclid, and the constant-time 2-adic division steps of Bernstein and Yang ("safegcd", what Fiat-Crypto generates
// next to the Montgomery arithmetic). The last one runs a FIXED number of steps
//
//	divstep(delta, f, g) = (1-delta, g, (g-f)/2)            if delta > 0 and g odd
//	                       (1+delta, f, (g + (g mod 2) f)/2) otherwise
//
// on (1, m, x) and is correct for x only if g has reached 0 by then. How many steps x needs is a 2-adic property:
// bit i of x decides the parity of g at step i, and the steps needed range from ~2.07 per bit for almost every x to
// ~2.83 per bit for the x whose parities follow the slowest contracting pattern. Such x have no visible structure in
// either representation and no sample finds them, but they can be SOLVED for: for a parity word w the bits of x are
// determined one by one (the second column of the transition matrix has an odd lower entry, so flipping bit i of x
// flips exactly the parity seen at step i). DivstepSteered returns, for every periodic parity word up to a period
// bound, the x < m (2^256-truncated, reduced) that follows the word for its first 256 division steps.
//
// The members are independent of how the tree under test inverts: they are a property of the modulus.

var divstepCache sync.Map

// DivstepSteered returns the steered members for all parity words of period 1..maxPeriod, sorted, without
// duplicates, zero excluded.
func DivstepSteered(m *big.Int, maxPeriod int) []*big.Int {
	type key struct {
		m string
		p int
	}

	k := key{m.Text(16), maxPeriod}
	if v, ok := divstepCache.Load(k); ok {
		return v.([]*big.Int)
	}

	set := map[string]*big.Int{}

	for p := 1; p <= maxPeriod; p++ {
		for w := uint32(0); w < 1<<uint(p); w++ {
			x := divstepSolve(m, w, p)
			if x.Sign() != 0 {
				set[x.Text(16)] = x
			}
		}
	}

	out := make([]*big.Int, 0, len(set))
	for _, v := range set {
		out = append(out, v)
	}

	sort.Slice(out, func(i, j int) bool { return out[i].Cmp(out[j]) < 0 })
	divstepCache.Store(k, out)

	return out
}

// divstepSolve builds x (256 bits, then reduced mod m) such that the parity of g at step i of the division steps on
// (1, m, x) is bit (i mod p) of w, for i < 256. When the 256-bit solution is >= m the reduced value follows the word
// only approximately; it is kept all the same (it is still an ordinary member).
func divstepSolve(m *big.Int, w uint32, p int) *big.Int {
	delta := 1
	f := new(big.Int).Set(m)
	g := new(big.Int)
	b := new(big.Int)  // second column of the transition matrix, upper entry (always even)
	d := big.NewInt(1) // lower entry (always odd)
	x := new(big.Int)

	for i := 0; i < 256; i++ {
		want := uint(w>>(uint(i%p))) & 1
		if g.Bit(0) != want {
			x.SetBit(x, i, 1)
			f.Add(f, b)
			g.Add(g, d)
		}

		switch {
		case delta > 0 && g.Bit(0) == 1:
			delta = 1 - delta
			f, g = g, f
			g.Sub(f, g) // g_new = (g_old - f_old)/2 with f = g_old, g = f_old
			g.Rsh(g, 1) // arithmetic shift: exact, the difference of two odd numbers is even
			b, d = d, b
			d.Sub(b, d) // d_new = d_old - b_old
			b.Lsh(b, 1) // b_new = 2 d_old
		case g.Bit(0) == 1:
			delta++
			g.Add(g, f)
			g.Rsh(g, 1)
			d.Add(d, b)
			b.Lsh(b, 1)
		default:
			delta++
			g.Rsh(g, 1)
			b.Lsh(b, 1)
		}
	}

	if x.Cmp(m) >= 0 {
		x.Mod(x, m)
	}

	return x
}

// DivstepCount returns the number of division steps after which g = 0 for the first time on (1, m, x).
func DivstepCount(m, x *big.Int) int {
	delta := 1
	f := new(big.Int).Set(m)
	g := new(big.Int).Set(x)

	n := 0
	for g.Sign() != 0 {
		switch {
		case delta > 0 && g.Bit(0) == 1:
			delta = 1 - delta
			f, g = g, f
			g.Sub(f, g)
			g.Rsh(g, 1)
		case g.Bit(0) == 1:
			delta++
			g.Add(g, f)
			g.Rsh(g, 1)
		default:
			delta++
			g.Rsh(g, 1)
		}

		n++
	}

	return n
}
