// Package vsync stands in for "sync" in the instrumented builds of the library under test (DESIGN.md 10.2, round
// 31): same API, but every operation is a scheduling point of the cooperative scheduler and waiting is visible to
// it. Outside controlled executions it behaves like the real package.
package vsync

import (
	"reflect"
	"sync"
	"sync/atomic"

	"github.com/bytemare/secp256k1/internal/verif/verifrt"
)

// Operation kinds (only used to label scheduling points).
const (
	KLock = iota + 1
	KUnlock
	KRLock
	KRUnlock
	KOnce
	KWgAdd
	KWgWait
	KPoolGet
	KPoolPut
	KMap
	KCondWait
	KCondSignal
	KAtomic
	KSpawn
	KChan
)

type Locker = sync.Locker

// Mutex ------------------------------------------------------------------------------------------------------------
type Mutex struct{ mu sync.Mutex }

func (m *Mutex) Lock() {
	if !verifrt.Controlled() {
		m.mu.Lock()
		return
	}

	verifrt.Pre(KLock)

	for !m.mu.TryLock() {
		if !verifrt.Block() {
			m.mu.Lock()
			return
		}
	}
}

func (m *Mutex) TryLock() bool {
	verifrt.Pre(KLock)
	return m.mu.TryLock()
}

func (m *Mutex) Unlock() {
	verifrt.Pre(KUnlock)
	m.mu.Unlock()
	verifrt.Post()
}

// RWMutex ----------------------------------------------------------------------------------------------------------
type RWMutex struct{ mu sync.RWMutex }

func (m *RWMutex) Lock() {
	if !verifrt.Controlled() {
		m.mu.Lock()
		return
	}

	verifrt.Pre(KLock)

	for !m.mu.TryLock() {
		if !verifrt.Block() {
			m.mu.Lock()
			return
		}
	}
}

func (m *RWMutex) RLock() {
	if !verifrt.Controlled() {
		m.mu.RLock()
		return
	}

	verifrt.Pre(KRLock)

	for !m.mu.TryRLock() {
		if !verifrt.Block() {
			m.mu.RLock()
			return
		}
	}
}

func (m *RWMutex) TryLock() bool  { verifrt.Pre(KLock); return m.mu.TryLock() }
func (m *RWMutex) TryRLock() bool { verifrt.Pre(KRLock); return m.mu.TryRLock() }
func (m *RWMutex) Unlock()        { verifrt.Pre(KUnlock); m.mu.Unlock(); verifrt.Post() }
func (m *RWMutex) RUnlock()       { verifrt.Pre(KRUnlock); m.mu.RUnlock(); verifrt.Post() }

type rlocker RWMutex

func (r *rlocker) Lock()   { (*RWMutex)(r).RLock() }
func (r *rlocker) Unlock() { (*RWMutex)(r).RUnlock() }

func (m *RWMutex) RLocker() Locker { return (*rlocker)(m) }

// Once -------------------------------------------------------------------------------------------------------------
type Once struct {
	m    Mutex
	done atomic.Uint32
}

func (o *Once) Do(f func()) {
	verifrt.Pre(KOnce)

	if o.done.Load() == 1 {
		return
	}

	o.m.Lock()
	defer o.m.Unlock()

	if o.done.Load() == 0 {
		defer func() { o.done.Store(1); verifrt.Post() }()
		f()
	}
}

func OnceFunc(f func()) func() {
	var o Once
	return func() { o.Do(f) }
}

func OnceValue[T any](f func() T) func() T {
	var (
		o Once
		v T
	)

	return func() T {
		o.Do(func() { v = f() })
		return v
	}
}

func OnceValues[T1, T2 any](f func() (T1, T2)) func() (T1, T2) {
	var (
		o  Once
		v1 T1
		v2 T2
	)

	return func() (T1, T2) {
		o.Do(func() { v1, v2 = f() })
		return v1, v2
	}
}

// WaitGroup --------------------------------------------------------------------------------------------------------
type WaitGroup struct {
	wg sync.WaitGroup
	n  atomic.Int64
}

func (w *WaitGroup) Add(delta int) {
	verifrt.Pre(KWgAdd)
	w.n.Add(int64(delta))
	w.wg.Add(delta)
	verifrt.Post()
}

func (w *WaitGroup) Done() { w.Add(-1) }

func (w *WaitGroup) Wait() {
	if !verifrt.Controlled() {
		w.wg.Wait()
		return
	}

	verifrt.Pre(KWgWait)

	for w.n.Load() != 0 {
		if !verifrt.Block() {
			w.wg.Wait()
			return
		}
	}
}

// Pool: a deterministic last-in-first-out free list (the real pool's per-P caches and its emptying by the garbage
// collector are nondeterminism that an explorer must own; a LIFO list is one of the behaviours the real pool has).
type Pool struct {
	New   func() any
	mu    sync.Mutex
	items []any
}

func (p *Pool) Get() any {
	verifrt.Pre(KPoolGet)
	p.mu.Lock()

	var x any

	if n := len(p.items); n > 0 {
		x = p.items[n-1]
		p.items[n-1] = nil
		p.items = p.items[:n-1]
	}

	p.mu.Unlock()

	if x == nil && p.New != nil {
		x = p.New()
	}

	return x
}

func (p *Pool) Put(x any) {
	if x == nil {
		return
	}

	verifrt.Pre(KPoolPut)
	p.mu.Lock()
	p.items = append(p.items, x)
	p.mu.Unlock()
	verifrt.Post()
}

// Map --------------------------------------------------------------------------------------------------------------
type Map struct{ m sync.Map }

func (m *Map) Load(k any) (any, bool) { verifrt.Pre(KMap); return m.m.Load(k) }
func (m *Map) Store(k, v any)         { verifrt.Pre(KMap); m.m.Store(k, v); verifrt.Post() }
func (m *Map) Delete(k any)           { verifrt.Pre(KMap); m.m.Delete(k); verifrt.Post() }
func (m *Map) Clear()                 { verifrt.Pre(KMap); m.m.Clear(); verifrt.Post() }
func (m *Map) LoadOrStore(k, v any) (any, bool) {
	verifrt.Pre(KMap)
	defer verifrt.Post()

	return m.m.LoadOrStore(k, v)
}

func (m *Map) LoadAndDelete(k any) (any, bool) {
	verifrt.Pre(KMap)
	defer verifrt.Post()

	return m.m.LoadAndDelete(k)
}

func (m *Map) Swap(k, v any) (any, bool) {
	verifrt.Pre(KMap)
	defer verifrt.Post()

	return m.m.Swap(k, v)
}

func (m *Map) CompareAndSwap(k, o, n any) bool {
	verifrt.Pre(KMap)
	defer verifrt.Post()

	return m.m.CompareAndSwap(k, o, n)
}

func (m *Map) CompareAndDelete(k, o any) bool {
	verifrt.Pre(KMap)
	defer verifrt.Post()

	return m.m.CompareAndDelete(k, o)
}

func (m *Map) Range(f func(k, v any) bool) { verifrt.Pre(KMap); m.m.Range(f) }

// Cond -------------------------------------------------------------------------------------------------------------
type Cond struct {
	L    Locker
	real *sync.Cond
	gen  atomic.Uint64
}

func NewCond(l Locker) *Cond { return &Cond{L: l, real: sync.NewCond(l)} }

func (c *Cond) init() {
	if c.real == nil {
		c.real = sync.NewCond(c.L)
	}
}

func (c *Cond) Wait() {
	c.init()

	if !verifrt.Controlled() {
		c.real.Wait()
		return
	}

	g := c.gen.Load()
	c.L.Unlock()
	verifrt.Pre(KCondWait)

	for c.gen.Load() == g {
		if !verifrt.Block() {
			break
		}
	}

	c.L.Lock()
}

func (c *Cond) Signal() {
	c.init()
	verifrt.Pre(KCondSignal)
	c.gen.Add(1)
	c.real.Signal()
	verifrt.Post()
}
func (c *Cond) Broadcast() {
	c.init()
	verifrt.Pre(KCondSignal)
	c.gen.Add(1)
	c.real.Broadcast()
	verifrt.Post()
}

// Channels ---------------------------------------------------------------------------------------------------------
// In the instrumented build `ch <- v`, `<-ch`, `v, ok := <-ch` and `close(ch)` outside select statements are redirected
// here. Under the cooperative scheduler only one thread runs at a time and none is ever parked inside a real channel
// operation, so a rendezvous is modelled: a sender that cannot complete registers its value as pending and waits; a
// receiver takes buffered data first (then lets the oldest pending sender refill the buffer) and otherwise the oldest
// pending value. select statements and range-over-channel loops are not redirected (a tree that blocks in one of them
// makes the execution hang; the scheduler's watchdog then abandons the exploration as incomplete).
type pendingSend struct {
	v     any
	push  func() bool
	taken bool
}

// pending is only touched by the one running thread of a controlled execution.
var pending = map[uintptr][]*pendingSend{}

// Reset forgets pending senders of earlier executions.
func Reset() { pending = map[uintptr][]*pendingSend{} }

func chanKey(ch any) uintptr {
	v := reflect.ValueOf(ch)
	if !v.IsValid() || v.IsNil() {
		return 0
	}

	return v.Pointer()
}

func Send[T any](ch chan<- T, v T) {
	if !verifrt.Controlled() {
		ch <- v
		return
	}

	verifrt.Pre(KChan)

	key := chanKey(ch)

	if len(pending[key]) == 0 {
		select {
		case ch <- v:
			verifrt.Post()
			return
		default:
		}
	}

	p := &pendingSend{v: v, push: func() bool {
		select {
		case ch <- v:
			return true
		default:
			return false
		}
	}}
	pending[key] = append(pending[key], p)
	verifrt.Post()

	for !p.taken {
		if !verifrt.Block() {
			// the controlled execution ended under us: complete for real
			for i, q := range pending[key] {
				if q == p {
					pending[key] = append(pending[key][:i], pending[key][i+1:]...)
					break
				}
			}

			ch <- v

			return
		}
	}
}

func Recv[T any](ch <-chan T) T {
	v, _ := Recv2(ch)
	return v
}

func Recv2[T any](ch <-chan T) (T, bool) {
	if !verifrt.Controlled() {
		v, ok := <-ch
		return v, ok
	}

	verifrt.Pre(KChan)

	key := chanKey(ch)

	for {
		select {
		case v, ok := <-ch:
			if q := pending[key]; ok && len(q) > 0 && q[0].push() {
				q[0].taken = true
				pending[key] = q[1:]
			}

			verifrt.Post()

			return v, ok
		default:
		}

		if q := pending[key]; len(q) > 0 {
			q[0].taken = true
			pending[key] = q[1:]
			verifrt.Post()

			return q[0].v.(T), true
		}

		if !verifrt.Block() {
			v, ok := <-ch
			return v, ok
		}
	}
}

func Close[T any](ch chan<- T) {
	verifrt.Pre(KChan)
	close(ch)
	verifrt.Post()
}
