// Package prelude puts the library into a "used" state before any check runs: it plays a caller that exercises
// its right to write into everything the API handed out - every returned byte slice is overwritten over its full
// capacity, every returned element or scalar is mutated. On a correct library this has no effect on later calls
// (results are fresh). If anything returned is shared with package-level state or with later results (Order()
// returning a package-level slice, NewElement() returning the identity variable, a cache handing out the same
// pointer twice), the damage is done here, once, and every check that follows explores from that non-initial
// state and reports the consequences.
package prelude

import (
	secp256k1 "github.com/bytemare/secp256k1"
)

func scribble(b []byte) {
	b = b[:cap(b)]
	for i := range b {
		b[i] = 0xa5 ^ byte(i*7) // a fixed pattern, not an involution: scribbling twice must not restore anything
	}
}

// Baseline is the rendering of every package-level variable of the three packages taken at process start, before
// the prelude or any check has called into the library. Checks whose property says that the package keeps no
// mutable global state compare against it at their end, so that state built lazily on first use (which the
// prelude would otherwise hide) is seen as well.
var Baseline string

// HostileCaller runs the prelude. It never fails; its effects, if any, are what the checks detect.
func HostileCaller() {
	defer func() { _ = recover() }()

	if Baseline == "" {
		Baseline = secp256k1.VerifAllGlobals()
	}

	msg, dst := []byte("prelude message"), []byte("PRELUDE-V01-CS02-with-secp256k1_XMD:SHA-256_SSWU_RO_")
	long := make([]byte, 300)

	for i := range long {
		long[i] = byte(i)
	}

	for round := 0; round < 2; round++ {
		scribble(secp256k1.Order())

		for _, e := range []*secp256k1.Element{
			secp256k1.Base(), secp256k1.NewElement(), secp256k1.HashToGroup(msg, dst), secp256k1.EncodeToGroup(msg, dst),
			secp256k1.HashToGroup(msg, long), secp256k1.Base().Copy(),
		} {
			scribble(e.Encode())
			scribble(e.EncodeUncompressed())
			scribble(e.XCoordinate())

			if b, err := e.MarshalBinary(); err == nil {
				scribble(b)
			}

			// the caller owns the returned element and may do anything with it
			e.Base().Double().Negate()
			e.Add(secp256k1.Base())
		}

		for _, s := range []*secp256k1.Scalar{
			secp256k1.NewScalar(), secp256k1.NewScalar().One(), secp256k1.NewScalar().MinusOne(), secp256k1.HashToScalar(msg, dst),
			secp256k1.HashToScalar(msg, long), secp256k1.NewScalar().One().Copy(),
		} {
			scribble(s.Encode())

			if b, err := s.MarshalBinary(); err == nil {
				scribble(b)
			}

			s.MinusOne().Square().Add(s)
		}

		for i := range long {
			long[i] ^= 0x5a
		}
	}
}
