package smallchk

import (
	"fmt"
	"math/big"

	"github.com/bytemare/secp256k1/internal/field"
)

// ContractCheck validates the stand-in exhaustively against the field-API specification over F_q (the same
// specification that C12 checks for the real field): all q^2 operand pairs of every binary operation, all q
// operands of every unary one, all 2q parse inputs. It returns the number of operation instances checked.
func ContractCheck(q uint64) (int64, error) {
	var n int64

	el := func(v uint64) *field.Element { return &field.Element{E: field.VerifEnc(v)} }
	val := func(e *field.Element) (uint64, error) {
		v, ok := field.VerifDec(&e.E)
		if !ok {
			return 0, fmt.Errorf("non-canonical stand-in element %v", e.E)
		}

		return v, nil
	}
	bq := new(big.Int).SetUint64(q)
	isSq := func(v uint64) bool { return v == 0 || big.Jacobi(new(big.Int).SetUint64(v), bq) == 1 }
	inv := func(v uint64) uint64 {
		if v == 0 {
			return 0
		}

		return new(big.Int).ModInverse(new(big.Int).SetUint64(v), bq).Uint64()
	}

	for a := uint64(0); a < q; a++ {
		for b := uint64(0); b < q; b++ {
			for _, c := range []struct {
				name string
				got  *field.Element
				want uint64
			}{
				{"Add", field.New().Add(el(a), el(b)), (a + b) % q},
				{"Subtract", field.New().Subtract(el(a), el(b)), (a + q - b) % q},
				{"Multiply", field.New().Multiply(el(a), el(b)), a * b % q},
				{"CMove0", field.New().CMove(0, el(a), el(b)), a},
				{"CMove1", field.New().CMove(1, el(a), el(b)), b},
			} {
				n++

				if v, err := val(c.got); err != nil || v != c.want {
					return n, fmt.Errorf("stand-in %s(%d,%d) = %d (%v), want %d", c.name, a, b, v, err, c.want)
				}
			}

			if got := el(a).Equals(el(b)); (got == 1) != (a == b) {
				return n, fmt.Errorf("stand-in Equals(%d,%d)=%d", a, b, got)
			}

			// aliasing: receiver is an operand
			x := el(a)
			x.Add(x, el(b))

			if v, _ := val(x); v != (a+b)%q {
				return n, fmt.Errorf("stand-in aliased Add")
			}

			if b != 0 {
				r, ok := field.New().SqrtRatio(el(a), el(b))
				w := a * inv(b) % q
				rv, _ := val(r)
				n++

				if (ok == 1) != isSq(w) || (ok == 1 && rv*rv%q != w) {
					return n, fmt.Errorf("stand-in SqrtRatio(%d,%d)", a, b)
				}
			}
		}

		for _, c := range []struct {
			name string
			got  *field.Element
			want uint64
		}{
			{"Negate", field.New().Negate(el(a)), (q - a) % q},
			{"Square", field.New().Square(el(a)), a * a % q},
			{"Invert", field.New().Invert(*el(a)), inv(a)},
			{"Set", field.New().Set(el(a)), a},
		} {
			n++

			if v, err := val(c.got); err != nil || v != c.want {
				return n, fmt.Errorf("stand-in %s(%d) = %d, want %d", c.name, a, v, c.want)
			}
		}

		if (el(a).IsZero() == 1) != (a == 0) || el(a).Sgn0() != a&1 {
			return n, fmt.Errorf("stand-in IsZero/Sgn0(%d)", a)
		}

		if b := el(a).Bytes(); len(b) != 32 || new(big.Int).SetBytes(b).Uint64() != a {
			return n, fmt.Errorf("stand-in Bytes(%d)", a)
		}
	}

	for v := uint64(0); v < 2*q+2; v++ {
		var in [32]byte

		new(big.Int).SetUint64(v).FillBytes(in[:])
		e, red := field.New().FromBytesWithReduce(in)
		got, _ := val(e)
		n++

		if (red == 1) != (v < q) || got != v%q {
			return n, fmt.Errorf("stand-in FromBytesWithReduce(%d)", v)
		}
	}

	// the constants the root package writes as Montgomery literals
	for _, c := range []struct{ lit, v uint64 }{{90194333733, 21}, {30064777911, 7}} {
		e := field.Element{E: field.MontgomeryDomainFieldElement{c.lit, 0, 0, 0}}
		if v, _ := field.VerifDec(&e.E); v != c.v%q {
			return n, fmt.Errorf("literal %d decodes to %d", c.lit, v)
		}
	}

	if v, _ := val(field.New().One()); v != 1 {
		return n, fmt.Errorf("stand-in One")
	}

	return n, nil
}
