package smallchk

import (
	"bytes"
	"encoding/hex"
	"fmt"
	"math/big"
	"sync"

	secp256k1 "github.com/bytemare/secp256k1"
	"github.com/bytemare/secp256k1/internal/field"
	"github.com/bytemare/secp256k1/internal/verif/alpha"
	"github.com/bytemare/secp256k1/internal/verif/ev"
	"github.com/bytemare/secp256k1/internal/verif/ref"
)

// Case mirrors checks.Case.
type Case map[string]string

func repStr(r Rep) string { return fmt.Sprintf("%d:%d", r.I, r.L) }

func repFrom(s string) Rep {
	var r Rep
	fmt.Sscanf(s, "%d:%d", &r.I, &r.L)

	return r
}

func catchStr(f func()) string {
	if p := ev.Catch(f); p != nil {
		return fmt.Sprint(p)
	}

	return ""
}

func setup(r *ev.Report, q uint64) *Model {
	m, err := Use(q)
	if err != nil {
		r.ToolError("small model q=%d: %v", q, err)
		return nil
	}

	n, err := ContractCheck(q)
	if err != nil {
		r.ToolError("small-field stand-in violates the field contract (q=%d): %v", q, err)
		return nil
	}

	r.Count(fmt.Sprintf("standin_contract_instances_q%d", q), n)

	return m
}

// ---- C02 -------------------------------------------------------------------------------------------------

// groupCase runs one group operation from the concrete states of a and b and checks the result against Z/N.
func (m *Model) groupCase(op string, a, b Rep) (key, detail string) {
	ea, eb := m.NewElem(a), m.NewElem(b)
	rb := RawOf(eb)
	ra := RawOf(ea)

	var (
		want int
		ret  *secp256k1.Element
	)

	if p := catchStr(func() {
		switch op {
		case "Add":
			ret, want = ea.Add(eb), m.Add(a.I, b.I)
		case "Subtract":
			ret, want = ea.Subtract(eb), m.Sub(a.I, b.I)
		case "Double":
			ret, want = ea.Double(), m.Add(a.I, a.I)
		case "Negate":
			ret, want = ea.Negate(), m.Neg(a.I)
		case "Add(self)":
			ret, want = ea.Add(ea), m.Add(a.I, a.I)
		case "Subtract(self)":
			ret, want = ea.Subtract(ea), 0
		case "Add(nil)":
			ret, want = ea.Add(nil), a.I
		case "Subtract(nil)":
			ret, want = ea.Subtract(nil), a.I
		default:
			panic("unknown op " + op)
		}
	}); p != "" {
		return op + "/panic", p
	}

	desc := fmt.Sprintf("q=%d A=[%d]g*%d B=[%d]g*%d", m.Q, a.I, a.L, b.I, b.L)

	if ret != ea {
		return op + "/returns-other-pointer", desc
	}

	got, ok := m.AbstractElem(ea)
	if !ok {
		return op + "/result-not-a-valid-representation", fmt.Sprintf("%s -> raw %v", desc, RawOf(ea))
	}

	if got.I != want {
		return op + "/wrong-result", fmt.Sprintf("%s -> [%d]g, want [%d]g", desc, got.I, want)
	}

	if (op == "Add(nil)" || op == "Subtract(nil)") && RawOf(ea) != ra {
		return op + "/receiver-changed", desc
	}

	if RawOf(eb) != rb {
		return op + "/argument-changed", desc
	}

	return "", ""
}

var unaryOps = []string{"Double", "Negate", "Add(self)", "Subtract(self)", "Add(nil)", "Subtract(nil)"}

// C02small: every ordered pair of every representation, on every prime of the tier.
func C02small(r *ev.Report) {
	r.Rule("small curves y^2=x^3+7 over F_q (unmodified element.go over the stand-in field): Add and Subtract on EVERY ordered pair of EVERY projective representation of every group element incl. all identity representations (0:l:0); Double, Negate, aliased and nil forms on every representation; oracle = Z/N_q; complete state space of the instance; non-trivial = result is the identity or operands are the same/opposite element")

	for _, q := range Primes(ev.Thorough()) {
		m := setup(r, q)
		if m == nil {
			return
		}

		reps := m.AllReps()
		r.Bound(fmt.Sprintf("q%d_representations", q), len(reps))
		r.States.Add(int64(len(reps)) * int64(len(reps)))

		r.ParFor(len(reps), func(_, i int) {
			a := reps[i]

			var nt int64

			for _, b := range reps {
				for _, op := range [...]string{"Add", "Subtract"} {
					if key, detail := m.groupCase(op, a, b); key != "" {
						r.Violation(key, detail, Case{"op": op, "q": fmt.Sprint(q), "a": repStr(a), "b": repStr(b)})
					}
				}

				if a.I == b.I || m.Add(a.I, b.I) == 0 {
					nt++
				}
			}

			for _, op := range unaryOps {
				if key, detail := m.groupCase(op, a, a); key != "" {
					r.Violation(key, detail, Case{"op": op, "q": fmt.Sprint(q), "a": repStr(a), "b": repStr(a)})
				}
			}

			n := int64(2*len(reps) + len(unaryOps))
			r.Transitions.Add(n)
			r.Evals.Add(n)
			r.Distinct.Add(nt)
			r.Count("same_or_opposite_element_pairs", nt)
		})

		if r.Expired() {
			r.Incomplete(fmt.Sprintf("stopped after q=%d", q))
			break
		}
	}

	r.Sample(Case{"op": "Add", "q": "13", "a": "3:5", "b": "4:11"})
	r.Sample(Case{"op": "Subtract", "q": "13", "a": "0:7", "b": "0:2"})
	r.RequireNonVacuous("same_or_opposite_element_pairs")
}

// ---- C05 -------------------------------------------------------------------------------------------------

func (m *Model) equalCase(a, b Rep) (key, detail string) {
	ea, eb := m.NewElem(a), m.NewElem(b)
	ra, rb := RawOf(ea), RawOf(eb)
	want := 0

	if a.I == b.I {
		want = 1
	}

	desc := fmt.Sprintf("q=%d A=[%d]g*%d B=[%d]g*%d", m.Q, a.I, a.L, b.I, b.L)
	class := "different-points"

	switch {
	case want == 1:
		class = "same-element"
	case a.I == 0 || b.I == 0:
		class = "identity-vs-point"
	case m.Pt[a.I][0] == m.Pt[b.I][0]:
		class = "same-x"
	case m.Pt[a.I][1] == m.Pt[b.I][1]:
		class = "same-y"
	}

	if got := ea.Equal(eb); got != want {
		return "Equal/wrong/" + class, fmt.Sprintf("%s Equal=%d", desc, got)
	}

	if got := ea.IsIdentity(); got != (a.I == 0) {
		return "IsIdentity/wrong", fmt.Sprintf("%s IsIdentity(A)=%v", desc, got)
	}

	if RawOf(ea) != ra || RawOf(eb) != rb {
		return "Equal/operand-changed", desc
	}

	return "", ""
}

// C05small: Equal and IsIdentity on every ordered pair of representations.
func C05small(r *ev.Report) {
	r.Rule("small curves: Equal on EVERY ordered pair of EVERY projective representation (both orders occur, so symmetry is covered), IsIdentity on every representation; the curves (q = 1 mod 3) contain points sharing y and points sharing x; non-trivial = same element in different scalings or different points sharing a coordinate")

	for _, q := range Primes(ev.Thorough()) {
		m := setup(r, q)
		if m == nil {
			return
		}

		reps := m.AllReps()
		r.Bound(fmt.Sprintf("q%d_representations", q), len(reps))
		r.States.Add(int64(len(reps)) * int64(len(reps)))

		r.ParFor(len(reps), func(_, i int) {
			a := reps[i]
			c := map[string]int64{}

			for _, b := range reps {
				if key, detail := m.equalCase(a, b); key != "" {
					r.Violation(key, detail, Case{"op": "Equal", "q": fmt.Sprint(q), "a": repStr(a), "b": repStr(b)})
				}

				switch {
				case a.I == b.I && a.L != b.L:
					c["same_element_different_scaling"]++
				case a.I == b.I:
				case a.I == 0 || b.I == 0:
					c["identity_vs_point"]++
				case m.Pt[a.I][0] == m.Pt[b.I][0]:
					c["same_x"]++
				case m.Pt[a.I][1] == m.Pt[b.I][1]:
					c["same_y"]++
				}
			}

			r.Merge(c)
			r.Distinct.Add(c["same_element_different_scaling"] + c["same_x"] + c["same_y"])
			r.Transitions.Add(int64(2 * len(reps)))
			r.Evals.Add(int64(len(reps)))
		})
	}

	r.Sample(Case{"op": "Equal", "q": "13", "a": "3:5", "b": "3:11"})
	r.RequireNonVacuous("same_element_different_scaling", "identity_vs_point", "same_x", "same_y")
}

// ---- C04 -------------------------------------------------------------------------------------------------

func (m *Model) encodeCase(a Rep) (key, detail string) {
	e := m.NewElem(a)
	before := RawOf(e)
	want, wantU := m.Enc(a.I), m.EncUncompressed(a.I)
	desc := fmt.Sprintf("q=%d P=[%d]g*%d", m.Q, a.I, a.L)

	enc := e.Encode()
	if !bytes.Equal(enc, want) {
		return "Encode/not-canonical-SEC1", fmt.Sprintf("%s Encode=%x want %x", desc, enc, want)
	}

	unc := e.EncodeUncompressed()
	if a.I != 0 && !bytes.Equal(unc, wantU) {
		return "EncodeUncompressed/not-canonical-SEC1", fmt.Sprintf("%s EncodeUncompressed=%x want %x", desc, unc, wantU)
	}

	if x := e.XCoordinate(); !bytes.Equal(x, enc[1:]) {
		return "XCoordinate/differs-from-Encode", fmt.Sprintf("%s XCoordinate=%x", desc, x)
	}

	if h := e.Hex(); h != hex.EncodeToString(enc) {
		return "Hex/differs-from-Encode", fmt.Sprintf("%s Hex=%s", desc, h)
	}

	if mb, err := e.MarshalBinary(); err != nil || !bytes.Equal(mb, enc) {
		return "MarshalBinary/differs-from-Encode", fmt.Sprintf("%s MarshalBinary=%x", desc, mb)
	}

	if RawOf(e) != before {
		return "encoders/receiver-changed", desc
	}

	for _, rt := range []struct {
		name string
		b    []byte
	}{{"Decode(Encode)", enc}, {"Decode(EncodeUncompressed)", unc}} {
		d := m.NewElem(Rep{1, 2})
		if err := d.Decode(rt.b); err != nil {
			return rt.name + "/rejected", fmt.Sprintf("%s bytes=%x: %v", desc, rt.b, err)
		}

		got, ok := m.AbstractElem(d)
		if !ok || got.I != a.I {
			return rt.name + "/different-element", fmt.Sprintf("%s bytes=%x", desc, rt.b)
		}

		if d.Equal(e) != 1 {
			return rt.name + "/not-Equal-to-source", desc
		}
	}

	return "", ""
}

// C04small: encodings of every representation of every element.
func C04small(r *ev.Report) {
	r.Rule("small curves: Encode, EncodeUncompressed, XCoordinate, Hex, MarshalBinary and both Decode round trips on EVERY projective representation of every element (all q-1 scalings must give the same bytes, every (0:l:0) must give 00); non-trivial = scaling != 1")

	for _, q := range Primes(ev.Thorough()) {
		m := setup(r, q)
		if m == nil {
			return
		}

		reps := m.AllReps()
		r.Bound(fmt.Sprintf("q%d_representations", q), len(reps))
		r.States.Add(int64(len(reps)))

		r.ParFor(len(reps), func(_, i int) {
			a := reps[i]
			r.Transitions.Add(7)
			r.Evals.Add(1)

			if a.L != 1 {
				r.Distinct.Add(1)
			}

			switch {
			case a.I == 0:
				r.Count("identity", 1)
			case m.Pt[a.I][1]&1 == 1:
				r.Count("odd_y", 1)
			default:
				r.Count("even_y", 1)
			}

			if key, detail := m.encodeCase(a); key != "" {
				r.Violation(key, detail, Case{"op": "encode", "q": fmt.Sprint(q), "a": repStr(a)})
			}
		})
	}

	r.Sample(Case{"op": "encode", "q": "13", "a": "3:5"})
	r.RequireNonVacuous("identity", "odd_y", "even_y")
}

// ---- C01 -------------------------------------------------------------------------------------------------

func newScalar(v *big.Int) *secp256k1.Scalar {
	s := secp256k1.NewScalar()
	s.S = ref.Mont(v, ref.N)

	return s
}

func (m *Model) mulCase(a Rep, k *big.Int) (key, detail string) {
	e := m.NewElem(a)

	var (
		s    *secp256k1.Scalar
		want int
		ks   = "nil"
	)

	if k != nil {
		s = newScalar(k)
		want = m.MulBig(k, a.I)
		ks = k.Text(16)
	}

	var ret *secp256k1.Element

	if p := catchStr(func() { ret = e.Multiply(s) }); p != "" {
		return "Multiply/panic", p
	}

	desc := fmt.Sprintf("q=%d P=[%d]g*%d k=%s", m.Q, a.I, a.L, ks)

	if ret != e {
		return "Multiply/returns-other-pointer", desc
	}

	got, ok := m.AbstractElem(e)
	if !ok {
		return "Multiply/result-not-a-valid-representation", fmt.Sprintf("%s raw=%v", desc, RawOf(e))
	}

	if got.I != want {
		class := "k<2^255"
		if k != nil && k.Bit(255) == 1 {
			class = "k>=2^255"
		}

		return "Multiply/wrong-result/" + class, fmt.Sprintf("%s -> [%d]g want [%d]g", desc, got.I, want)
	}

	if enc := e.Encode(); !bytes.Equal(enc, m.Enc(want)) {
		return "Multiply/wrong-encoding", fmt.Sprintf("%s Encode=%x", desc, enc)
	}

	if s != nil && s.S != ref.Mont(k, ref.N) {
		return "Multiply/scalar-changed", desc
	}

	return "", ""
}

// C01small: Multiply from every representation of every point.
func C01small(r *ev.Report) {
	r.Rule("small curves: Multiply from EVERY projective representation of every element; scalings {1,2,q-1} with the full 256-bit scalar alphabet K, all other scalings with {0..2N+2, n-1, n-2, 2^255, 2^255+1, 2^256-2^32 mod n}; nil scalar; oracle = [k mod N_q] in Z/N_q; non-trivial = k >= 2^64")

	level := 0
	if ev.Thorough() {
		level = 1
	}

	full := alpha.Scalars(level)

	for _, q := range Primes(ev.Thorough()) {
		if q > 79 {
			continue
		}

		m := setup(r, q)
		if m == nil {
			return
		}

		if !m.mulApplicable(r) {
			r.Count("scalars_above_2^64", 1) // not vacuous: not applicable
			continue
		}

		var short []*big.Int

		for i := 0; i <= 2*m.N+2; i++ {
			short = append(short, big.NewInt(int64(i)))
		}

		one := big.NewInt(1)
		short = append(short, new(big.Int).Sub(ref.N, one), new(big.Int).Sub(ref.N, big.NewInt(2)), new(big.Int).Lsh(one, 255),
			new(big.Int).Add(new(big.Int).Lsh(one, 255), one), ref.Mod(new(big.Int).Sub(ref.Two256(), new(big.Int).Lsh(one, 32)), ref.N))

		reps := m.AllReps()
		r.Bound(fmt.Sprintf("q%d_representations", q), len(reps))

		r.ParFor(len(reps), func(_, i int) {
			a := reps[i]
			ks := short

			if a.L == 1 || a.L == 2 || a.L == q-1 {
				ks = full
			}

			var nt int64

			for _, k := range ks {
				if k.BitLen() > 64 {
					nt++
				}

				if key, detail := m.mulCase(a, k); key != "" {
					r.Violation(key, detail, Case{"op": "Multiply", "q": fmt.Sprint(q), "a": repStr(a), "k": k.Text(16)})
				}
			}

			if key, detail := m.mulCase(a, nil); key != "" {
				r.Violation(key, detail, Case{"op": "Multiply", "q": fmt.Sprint(q), "a": repStr(a), "k": "nil"})
			}

			r.States.Add(int64(len(ks) + 1))
			r.Transitions.Add(int64(len(ks) + 1))
			r.Evals.Add(int64(len(ks) + 1))
			r.Distinct.Add(nt)
			r.Count("scalars_above_2^64", nt)
		})

		if r.Expired() {
			r.Incomplete(fmt.Sprintf("stopped after q=%d", q))
			break
		}
	}

	r.Sample(Case{"op": "Multiply", "q": "13", "a": "3:5", "k": new(big.Int).Sub(ref.N, big.NewInt(1)).Text(16)})
	r.RequireNonVacuous("scalars_above_2^64")
}

// ---- applicability of the scaled-down instance to Multiply ----------------------------------------------------

var (
	mulGenericMu    sync.Mutex
	mulGenericCache = map[uint64]string{}
)

// MulGeneric reports whether Multiply of the tree under test can be modelled on the scaled-down instance at all.
//
// The small curve has its own group order N_q, while scalars stay the real 256-bit scalars modulo n. The oracle
// [k mod N_q]g is therefore right exactly for implementations that treat k as a plain integer (ladders, windows,
// signed digits of k itself). An implementation may legitimately exploit the structure of the REAL group instead -
// pad k to k+n or k+2n for a fixed length, recode k > n/2 as -(n-k), split it with the curve's endomorphism - and
// is then right on secp256k1 and meaningless on the small curve, where [n]P is not the identity (n mod N_q != 0 for
// every instance used) and beta is not a cube root of unity. That is a fact about the tree, not a violation: the
// instance does not model it. It is recognised on a calibration set - canonical representation of every point,
// k in {0, 1, 2, 3, n-1, n-2, 2^255} - by its SIGNATURE, so that a Multiply that is simply wrong keeps being
// reported by the small-field parts:
//
//   - every calibration result that differs from [k]P is a valid point and equals [k + c*n]P for some 0 < |c| <= 3
//     (the implementation works with another representative of k modulo the real order), or
//   - Multiply decodes field literals that are not the stand-in's (constants of the real curve such as beta: the
//     stand-in counts them).
//
// In these two cases the small-field parts make no statement about Multiply (exhaustive:false with the reason) and
// the real-curve parts decide alone. Not recognised (stated limit): blinding with large random multiples of n.
func (m *Model) MulGeneric() (ok bool, why string) {
	mulGenericMu.Lock()
	defer mulGenericMu.Unlock()

	if w, done := mulGenericCache[m.Q]; done {
		return w == "", w
	}

	one := big.NewInt(1)
	ks := []*big.Int{big.NewInt(0), one, big.NewInt(2), big.NewInt(3), new(big.Int).Sub(ref.N, one),
		new(big.Int).Sub(ref.N, big.NewInt(2)), new(big.Int).Lsh(one, 255)}

	mismatches, explained := 0, 0
	first := ""
	foreign := uint64(0)

	for i := 0; i < m.N; i++ {
		for _, k := range ks {
			e := m.NewElem(Rep{I: i, L: 1})
			f0 := field.VerifForeign.Load()
			p := catchStr(func() { e.Multiply(newScalar(k)) })
			foreign += field.VerifForeign.Load() - f0

			if p != "" {
				mismatches++
				continue
			}

			got, valid := m.AbstractElem(e)
			want := m.MulBig(k, i)

			if valid && got.I == want {
				continue
			}

			mismatches++

			if first == "" {
				first = fmt.Sprintf("q=%d P=[%d]g k=%x does not give [%d]g", m.Q, i, k, want)
			}

			if !valid {
				continue
			}

			for c := int64(-3); c <= 3; c++ {
				if c == 0 {
					continue
				}

				kk := new(big.Int).Add(k, new(big.Int).Mul(big.NewInt(c), ref.N))
				if got.I == m.MulBig(kk, i) {
					explained++
					break
				}
			}
		}
	}

	switch {
	case foreign != 0:
		why = fmt.Sprintf("q=%d: Multiply decodes field literals that are constants of the real curve", m.Q)
	case mismatches > 0 && explained == mismatches:
		why = first + " but [k + c*n]g for a small c: Multiply works with another representative of k modulo the real group order"
	}

	mulGenericCache[m.Q] = why

	return why == "", why
}

// mulApplicable is MulGeneric with the reason recorded in the report.
func (m *Model) mulApplicable(r *ev.Report) bool {
	ok, why := m.MulGeneric()
	if !ok {
		r.Incomplete("Multiply of this tree is not modelled by the scaled-down instance (calibration: " + why + "); the small-field parts make no statement about Multiply, the real-curve parts decide")
	}

	return ok
}
