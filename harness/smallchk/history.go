package smallchk

import (
	"fmt"
	"math/big"

	secp256k1 "github.com/bytemare/secp256k1"
	"github.com/bytemare/secp256k1/internal/verif/ev"
	"github.com/bytemare/secp256k1/internal/verif/ref"
)

// maxVars is the largest pool size.
const maxVars = 3

// State is the concrete state of the pool: the raw limbs of every variable (unused slots are zero).
type State [maxVars]Raw

// Op is one API call on the pool: receiver I, argument J (may equal I: same pointer), constant C.
type Op struct {
	Kind string
	I, J int
	C    int
}

func (o Op) String() string { return fmt.Sprintf("%s(recv=v%d,arg=v%d,c=%d)", o.Kind, o.I, o.J, o.C) }

var mulConsts = []*big.Int{nil, big.NewInt(0), big.NewInt(1), big.NewInt(2), big.NewInt(3), new(big.Int).Sub(ref.N, big.NewInt(1))}

const nBadEncodings = 6

// badEncoding returns the c-th invalid encoding over F_q: decoding it must fail and leave the receiver untouched.
func (m *Model) badEncoding(c int) []byte {
	offX := uint64(0)

	for x := uint64(0); x < m.Q; x++ {
		on := false
		for y := uint64(0); y < m.Q; y++ {
			on = on || m.idx[x*m.Q+y] >= 0
		}

		if !on {
			offX = x
			break
		}
	}

	g := m.EncUncompressed(1)

	switch c {
	case 0: // compressed, x in range but x^3+7 not a square
		return append([]byte{2}, be32(new(big.Int).SetUint64(offX))...)
	case 1: // compressed, x >= q (alias of a valid abscissa)
		return append([]byte{3}, be32(new(big.Int).SetUint64(m.Pt[1][0]+m.Q))...)
	case 2: // bad prefix
		return append([]byte{5}, m.Enc(1)[1:]...)
	case 3: // truncated
		return m.Enc(1)[:32]
	case 4: // uncompressed, off curve
		b := append([]byte{}, g...)
		b[64] ^= 1

		return b
	default: // non-zero single byte
		return []byte{1}
	}
}

// opsFor lists the operation instances for a pool of v variables.
func opsFor(v int, withMul bool) []Op {
	var ops []Op

	for i := 0; i < v; i++ {
		for _, k := range []string{"Double", "Negate", "Identity", "Add(nil)", "Subtract(nil)", "DecodeGenerator", "DecodeIdentity"} {
			ops = append(ops, Op{Kind: k, I: i, J: i})
		}

		for c := 0; c < nBadEncodings; c++ {
			ops = append(ops, Op{Kind: "Decode(invalid)", I: i, J: i, C: c})
		}

		if withMul {
			for c := range mulConsts {
				ops = append(ops, Op{Kind: "Multiply", I: i, J: i, C: c})
			}
		}

		for j := 0; j < v; j++ {
			for _, k := range []string{"Set", "Add", "Subtract", "Copy", "Decode(Encode)", "Decode(EncodeUncompressed)"} {
				ops = append(ops, Op{Kind: k, I: i, J: j})
			}
		}
	}

	return ops
}

// Apply executes op from the concrete state st on fresh elements and checks every invariant of C10 for this
// transition. It returns the successor state.
func (m *Model) Apply(v int, st State, o Op) (next State, key, detail string) {
	var (
		el    [maxVars]*secp256k1.Element
		model [maxVars]int
	)

	for i := 0; i < v; i++ {
		el[i] = Elem(st[i])

		r, ok := m.Abstract(st[i])
		if !ok {
			return st, "tool/invalid-start-state", fmt.Sprintf("%v", st[i])
		}

		model[i] = r.I
	}

	want := model
	recv, arg := el[o.I], el[o.J]

	var err error

	if p := catchStr(func() {
		switch o.Kind {
		case "Double":
			recv.Double()
			want[o.I] = m.Add(model[o.I], model[o.I])
		case "Negate":
			recv.Negate()
			want[o.I] = m.Neg(model[o.I])
		case "Identity":
			recv.Identity()
			want[o.I] = 0
		case "Add(nil)":
			recv.Add(nil)
		case "Subtract(nil)":
			recv.Subtract(nil)
		case "DecodeGenerator":
			err = recv.Decode(m.Enc(1))
			want[o.I] = 1
		case "DecodeIdentity":
			err = recv.Decode([]byte{0})
			want[o.I] = 0
		case "Decode(invalid)":
			if derr := recv.Decode(m.badEncoding(o.C)); derr == nil {
				err = fmt.Errorf("invalid encoding %x accepted", m.badEncoding(o.C))
			}
		case "Multiply":
			k := mulConsts[o.C]

			var s *secp256k1.Scalar
			if k != nil {
				s = newScalar(k)
				want[o.I] = m.MulBig(k, model[o.I])
			} else {
				want[o.I] = 0
			}

			recv.Multiply(s)

			if s != nil && s.S != ref.Mont(k, ref.N) {
				err = fmt.Errorf("scalar operand changed")
			}
		case "Set":
			recv.Set(arg)
			want[o.I] = model[o.J]
		case "Add":
			recv.Add(arg)
			want[o.I] = m.Add(model[o.I], model[o.J])
		case "Subtract":
			recv.Subtract(arg)
			want[o.I] = m.Sub(model[o.I], model[o.J])
		case "Copy":
			c := arg.Copy()
			if c == arg {
				err = fmt.Errorf("Copy returned its receiver")
				break
			}
			// independence probe: mutating the copy must not touch the source
			probe := RawOf(arg)
			c.Double()
			c.Negate()

			if RawOf(arg) != probe {
				err = fmt.Errorf("mutating a copy changed its source")
				break
			}

			el[o.I] = arg.Copy()
			want[o.I] = model[o.J]
		case "Decode(Encode)":
			err = recv.Decode(arg.Encode())
			want[o.I] = model[o.J]
		case "Decode(EncodeUncompressed)":
			err = recv.Decode(arg.EncodeUncompressed())
			want[o.I] = model[o.J]
		default:
			panic("unknown op " + o.Kind)
		}
	}); p != "" {
		return st, o.Kind + "/panic", fmt.Sprintf("q=%d %v: %s", m.Q, o, p)
	}

	desc := func() string { return fmt.Sprintf("q=%d v=%d state=%s op=%v", m.Q, v, m.StateString(v, st), o) }

	if err != nil {
		return st, o.Kind + "/error", desc() + ": " + err.Error()
	}

	var abs [maxVars]int

	for i := 0; i < v; i++ {
		next[i] = RawOf(el[i])

		r, ok := m.Abstract(next[i])
		if !ok {
			return next, o.Kind + "/leaves-invalid-curve-point", fmt.Sprintf("%s: v%d raw=%v", desc(), i, next[i])
		}

		abs[i] = r.I

		if r.I != want[i] {
			if i == o.I {
				return next, o.Kind + "/receiver-differs-from-model", fmt.Sprintf("%s: v%d=[%d]g, model [%d]g", desc(), i, r.I, want[i])
			}

			return next, o.Kind + "/non-receiver-value-changed", fmt.Sprintf("%s: v%d=[%d]g, model [%d]g", desc(), i, r.I, want[i])
		}

		if i != o.I && next[i] != st[i] {
			return next, o.Kind + "/non-receiver-bits-changed", fmt.Sprintf("%s: v%d", desc(), i)
		}
	}

	if (o.Kind == "Add(nil)" || o.Kind == "Subtract(nil)" || o.Kind == "Decode(invalid)") && next[o.I] != st[o.I] {
		return next, o.Kind + "/receiver-changed", desc()
	}

	// observables: Equal / IsIdentity matrix agrees with the model
	for a := 0; a < v; a++ {
		if el[a].IsIdentity() != (abs[a] == 0) {
			return next, o.Kind + "/IsIdentity-differs-from-model", desc()
		}

		for b := 0; b < v; b++ {
			if (el[a].Equal(el[b]) == 1) != (abs[a] == abs[b]) {
				return next, o.Kind + "/Equal-differs-from-model", fmt.Sprintf("%s: Equal(v%d,v%d)", desc(), a, b)
			}
		}
	}

	return next, "", ""
}

// StateString renders a state as model representations.
func (m *Model) StateString(v int, st State) string {
	s := ""

	for i := 0; i < v; i++ {
		r, ok := m.Abstract(st[i])
		if ok {
			s += fmt.Sprintf("[v%d=%s]", i, repStr(r))
		} else {
			s += fmt.Sprintf("[v%d=invalid]", i)
		}
	}

	return s
}

func (m *Model) stateOf(reps []Rep, idx [maxVars]int, v int) State {
	var st State

	for i := 0; i < v; i++ {
		st[i] = m.RawRep(reps[idx[i]])
	}

	return st
}

// sweep applies every operation from every tuple of valid representations (the inductive invariant Inv).
func (m *Model) sweep(r *ev.Report, v int, withMulEverywhere bool) {
	reps := m.AllReps()
	n := len(reps)
	total := 1

	for i := 0; i < v; i++ {
		total *= n
	}

	opsAll := opsFor(v, m.mulApplicable(r))
	opsNoMul := opsFor(v, false)
	sentinel := map[int]bool{0: true, n / 2: true, n - 1: true}
	globals := secp256k1.VerifAllGlobals()

	r.Bound(fmt.Sprintf("q%d_pool%d_states", m.Q, v), total)
	r.Bound(fmt.Sprintf("q%d_pool%d_operation_instances", m.Q, v), len(opsAll))

	r.ParFor(total, func(_, s int) {
		var idx [maxVars]int

		t := s
		for i := 0; i < v; i++ {
			idx[i] = t % n
			t /= n
		}

		st := m.stateOf(reps, idx, v)
		ops := opsNoMul

		if withMulEverywhere {
			ops = opsAll
		} else {
			others := true
			for i := 1; i < v; i++ {
				others = others && sentinel[idx[i]]
			}

			if others {
				ops = opsAll
			}
		}

		for _, o := range ops {
			if !withMulEverywhere && o.Kind == "Multiply" && o.I != 0 {
				continue
			}

			if _, key, detail := m.Apply(v, st, o); key != "" {
				r.Violation(key, detail, Case{"op": "history", "q": fmt.Sprint(m.Q), "vars": fmt.Sprint(v), "state": m.StateString(v, st), "step": o.String()})
			}

			r.Transitions.Add(1)
			r.Evals.Add(1)
		}

		if s%64 == 0 {
			if g := secp256k1.VerifAllGlobals(); g != globals {
				r.PackageState("globals/changed", fmt.Sprintf("package-level state changed: %s -> %s", globals, g), Case{"op": "globals"})
			}
		}
	})

	if g := secp256k1.VerifAllGlobals(); g != globals {
		r.PackageState("globals/changed", fmt.Sprintf("package-level state changed: %s -> %s", globals, g), Case{"op": "globals"})
	}

	r.States.Add(int64(total))
	r.Distinct.Add(int64(total))
}

// packState maps a valid concrete state to a compact key. For valid states this is a bijection: VerifDec only
// accepts the canonical small-form limbs, so (element index, scaling) determines the raw limbs and vice versa.
func (m *Model) packState(v int, st State) (uint64, bool) {
	var k uint64

	for i := 0; i < v; i++ {
		r, ok := m.Abstract(st[i])
		if !ok {
			return 0, false
		}

		k = k*uint64(m.N)*m.Q + uint64(r.I)*m.Q + r.L
	}

	return k, true
}

// bfs explores the states reachable from the initial pool (all variables NewElement()) breadth-first, with
// de-duplication on the concrete state, until the frontier is empty (level-synchronous, successors computed in
// parallel, merged in a fixed order). It returns states, transitions and depth.
func (m *Model) bfs(r *ev.Report, v int, withMul bool) (int, int, int) {
	var init State

	for i := 0; i < v; i++ {
		init[i] = RawOf(secp256k1.NewElement())
	}

	ops := opsFor(v, withMul && m.mulApplicable(r))
	k0, _ := m.packState(v, init)
	seen := map[uint64]bool{k0: true}
	frontier := []State{init}
	transitions, depth := 0, 0

	for len(frontier) > 0 {
		var next []State

		const chunk = 8192

		for lo := 0; lo < len(frontier); lo += chunk {
			hi := lo + chunk
			if hi > len(frontier) {
				hi = len(frontier)
			}

			part := frontier[lo:hi]
			succ := make([][]State, len(part))

			r.ParFor(len(part), func(_, fi int) {
				st := part[fi]
				local := make([]State, 0, len(ops))

				for _, o := range ops {
					ns, key, detail := m.Apply(v, st, o)
					if key != "" {
						r.Violation(key, "reachable: "+detail, Case{"op": "history", "q": fmt.Sprint(m.Q), "vars": fmt.Sprint(v), "state": m.StateString(v, st), "step": o.String()})
						continue
					}

					local = append(local, ns)
				}

				succ[fi] = local
			})

			for _, l := range succ {
				transitions += len(ops)

				for _, ns := range l {
					k, ok := m.packState(v, ns)
					if ok && !seen[k] {
						seen[k] = true
						next = append(next, ns)
					}
				}
			}
		}

		frontier = next
		if len(next) > 0 {
			depth++
		}

		if r.Expired() {
			r.Incomplete(fmt.Sprintf("BFS q=%d pool=%d stopped at depth %d", m.Q, v, depth))
			break
		}
	}

	return len(seen), transitions, depth
}

// C10small: closure sweep over every state plus reachability BFS.
func C10small(r *ev.Report) {
	r.Rule("small curves, explicit-state search: (a) closure sweep - EVERY tuple of valid projective representations of a pool of 2 (q=13 also 3) element variables is a start state and EVERY operation instance (Set, Add, Subtract, Copy, Decode(Encode), Decode(EncodeUncompressed) for every receiver/argument pair incl. the same variable; Double, Negate, Identity, Add(nil), Subtract(nil), Decode of generator/identity, Multiply by {nil,0,1,2,3,n-1}) is applied; invariants per transition: receiver == model in Z/N_q, non-receivers bit-identical, every variable a valid curve point, Equal/IsIdentity matrix == model, copies independent, globals unchanged; this set is inductive, so all finite histories are covered; (b) BFS from the initial pool with concrete-state de-duplication until the frontier is empty")

	for _, q := range Primes(ev.Thorough()) {
		if q > 43 {
			continue
		}

		m := setup(r, q)
		if m == nil {
			return
		}

		m.sweep(r, 2, q == 13)

		if q == 13 {
			m.sweep3(r)
		}

		if q != 13 && !ev.Thorough() {
			continue
		}

		states, trans, depth := m.bfs(r, 2, true)
		r.Bound(fmt.Sprintf("q%d_bfs_reachable_states", q), states)
		r.Bound(fmt.Sprintf("q%d_bfs_depth_at_closure", q), depth)
		r.Count(fmt.Sprintf("q%d_bfs_transitions", q), int64(trans))
		r.Transitions.Add(int64(trans))
		r.Evals.Add(int64(trans))

		if r.Expired() {
			r.Incomplete(fmt.Sprintf("stopped after q=%d", q))
			break
		}
	}

	r.Sample(Case{"op": "history", "q": "13", "vars": "2", "state": "[v0=3:5][v1=4:11]", "step": Op{Kind: "Subtract", I: 0, J: 1}.String()})
	r.Sample(Case{"op": "history", "q": "13", "vars": "2", "state": "[v0=3:5][v1=0:7]", "step": Op{Kind: "Add", I: 1, J: 1}.String()})
}

// sweep3 is the three-variable sweep (without Multiply, which does not read other variables).
func (m *Model) sweep3(r *ev.Report) {
	reps := m.AllReps()
	n := len(reps)
	total := n * n * n
	ops := opsFor(3, false)

	r.Bound(fmt.Sprintf("q%d_pool3_states", m.Q), total)

	r.ParFor(total, func(_, s int) {
		idx := [maxVars]int{s % n, s / n % n, s / n / n}
		st := m.stateOf(reps, idx, 3)

		for _, o := range ops {
			// operations that involve at most two variables were covered by the 2-pool for the pair; with a third
			// variable present what remains to be shown is that it is untouched - which Apply checks.
			if _, key, detail := m.Apply(3, st, o); key != "" {
				r.Violation(key, detail, Case{"op": "history", "q": fmt.Sprint(m.Q), "vars": "3", "state": m.StateString(3, st), "step": o.String()})
			}
		}

		r.Transitions.Add(int64(len(ops)))
		r.Evals.Add(int64(len(ops)))
	})

	r.States.Add(int64(total))
}
