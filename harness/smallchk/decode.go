package smallchk

import (
	"bytes"
	"encoding/hex"
	"fmt"
	"math/big"

	secp256k1 "github.com/bytemare/secp256k1"
	"github.com/bytemare/secp256k1/internal/verif/ev"
	"github.com/bytemare/secp256k1/internal/verif/ref"
)

const errPointEncoding = "invalid point encoding"

var decoders = []struct {
	name  string
	forms int
	f     func(e *secp256k1.Element, b []byte) error
}{
	{"Decode", ref.FormAny, (*secp256k1.Element).Decode},
	{"UnmarshalBinary", ref.FormAny, (*secp256k1.Element).UnmarshalBinary},
	{"DecodeHex", ref.FormAny, func(e *secp256k1.Element, b []byte) error { return e.DecodeHex(hex.EncodeToString(b)) }},
	{"DecodeCompressed", ref.FormCompressed, (*secp256k1.Element).DecodeCompressed},
	{"DecodeUncompressed", ref.FormUncompressed, (*secp256k1.Element).DecodeUncompressed},
}

// decodeCase presents b to decoder di (5 = DecodeCoordinates) with receiver `which` (0: identity, 1: [1]g scaled by 2).
func (m *Model) decodeCase(di int, b []byte, which int) (key, detail string, accepted bool) {
	e := secp256k1.NewElement()
	if which == 1 {
		e = m.NewElem(Rep{1, 2})
	}

	before := RawOf(e)
	in := append([]byte{}, b...)

	var (
		err  error
		name string
		want int
		ok   bool
	)

	if di == 5 {
		name = "DecodeCoordinates"
		want, ok = m.DecCoordinates(b[1:33], b[33:])

		if p := catchStr(func() { err = e.DecodeCoordinates([32]byte(in[1:33]), [32]byte(in[33:])) }); p != "" {
			return name + "/panic", fmt.Sprintf("q=%d input %x: %s", m.Q, b, p), false
		}
	} else {
		d := decoders[di]
		name = d.name
		want, ok = m.Dec(b, d.forms)

		if p := catchStr(func() { err = d.f(e, in) }); p != "" {
			return name + "/panic", fmt.Sprintf("q=%d input %x: %s", m.Q, b, p), false
		}
	}

	if !bytes.Equal(in, b) {
		return name + "/input-modified", fmt.Sprintf("q=%d input %x", m.Q, b), ok
	}

	if !ok {
		if err == nil {
			return name + "/accepted-invalid", fmt.Sprintf("q=%d input %x accepted", m.Q, b), ok
		}

		if err.Error() != errPointEncoding {
			return name + "/wrong-error", fmt.Sprintf("q=%d input %x: %q", m.Q, b, err), ok
		}

		if RawOf(e) != before {
			return name + "/receiver-changed-on-error", fmt.Sprintf("q=%d input %x (receiver %d)", m.Q, b, which), ok
		}

		return "", "", ok
	}

	if err != nil {
		return name + "/rejected-valid", fmt.Sprintf("q=%d input %x: %v", m.Q, b, err), ok
	}

	got, valid := m.AbstractElem(e)
	if !valid || got.I != want {
		return name + "/wrong-point", fmt.Sprintf("q=%d input %x (receiver %d): got [%d]g valid=%v want [%d]g", m.Q, b, which, got.I, valid, want), ok
	}

	return "", "", ok
}

func be32(v *big.Int) []byte {
	out := make([]byte, 32)
	v.FillBytes(out)

	return out
}

// C03small: every byte string of the relevant lengths over the small field.
func C03small(r *ev.Report) {
	r.Rule("small fields: length 33 = all 256 prefixes x every x in [0,2q+2) and x + 2^(8j) (high bytes set); length 65 = every (x,y) in [0,2q)^2 with prefix 04 and 9 other prefixes, all 256 prefixes for q=13 and for on-curve pairs; every 1-byte string; lengths 0,2,32,34,64,66; each x {Decode, UnmarshalBinary, DecodeHex, DecodeCompressed, DecodeUncompressed, DecodeCoordinates} x 2 prior receivers; non-trivial = accepted strings")

	for _, q := range Primes(false) {
		m := setup(r, q)
		if m == nil {
			return
		}

		var strs [][]byte

		add := func(b []byte) { strs = append(strs, b) }

		for p := 0; p < 256; p++ {
			add([]byte{byte(p)})

			for x := uint64(0); x < 2*q+2; x++ {
				xv := new(big.Int).SetUint64(x)
				add(append([]byte{byte(p)}, be32(xv)...))

				if p <= 4 {
					for _, j := range []uint{1, 8, 31} {
						add(append([]byte{byte(p)}, be32(new(big.Int).Add(xv, new(big.Int).Lsh(big.NewInt(1), 8*j)))...))
					}
				}
			}
		}

		somePrefixes := []byte{4, 0, 2, 3, 5, 6, 7, 0x84, 0xfb, 0xff}

		for x := uint64(0); x < 2*q; x++ {
			for y := uint64(0); y < 2*q; y++ {
				body := append(be32(new(big.Int).SetUint64(x)), be32(new(big.Int).SetUint64(y))...)
				onCurve := x < q && y < q && m.idx[x*q+y] >= 0

				if q == 13 || onCurve {
					for p := 0; p < 256; p++ {
						add(append([]byte{byte(p)}, body...))
					}
				} else {
					for _, p := range somePrefixes {
						add(append([]byte{p}, body...))
					}
				}
			}
		}

		for _, l := range []int{0, 2, 32, 34, 64, 66} {
			for _, first := range []byte{0, 2, 4} {
				b := make([]byte, l)
				if l > 0 {
					b[0] = first
				}

				add(b)
			}
		}

		r.Bound(fmt.Sprintf("q%d_strings", q), len(strs))
		r.States.Add(int64(len(strs)))

		r.ParFor(len(strs), func(_, i int) {
			b := strs[i]
			nd := len(decoders)

			if len(b) == 65 {
				nd++
			}

			for di := 0; di < nd; di++ {
				for which := 0; which < 2; which++ {
					key, detail, acc := m.decodeCase(di, b, which)
					if key != "" {
						r.Violation(key, detail, Case{"op": "decode", "q": fmt.Sprint(q), "decoder": fmt.Sprint(di), "input": hex.EncodeToString(b), "receiver": fmt.Sprint(which)})
					}

					if acc && which == 0 && di == 0 {
						r.Distinct.Add(1)
						r.Count(fmt.Sprintf("accepted_len%d", len(b)), 1)
					}

					if !acc && which == 0 && di == 0 {
						r.Count("rejected", 1)
					}
				}
			}

			r.Transitions.Add(int64(2 * nd))
			r.Evals.Add(int64(2 * nd))
		})
	}

	r.Sample(Case{"op": "decode", "q": "13", "decoder": "0", "input": "02" + hex.EncodeToString(be32(big.NewInt(13))), "receiver": "0"})
	r.RequireNonVacuous("accepted_len1", "accepted_len33", "accepted_len65", "rejected")
}
