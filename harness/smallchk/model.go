// Package smallchk explores the scaled-down instance: the unmodified group code of the root package compiled
// against the small-field stand-in (build variant "small"), on the curve y^2 = x^3 + 7 over F_q. The abstract
// model is the cyclic group Z/N_q given by a point table built with an independent affine implementation.
package smallchk

import (
	"fmt"
	"math/big"

	secp256k1 "github.com/bytemare/secp256k1"
	"github.com/bytemare/secp256k1/internal/field"
	"github.com/bytemare/secp256k1/internal/verif/ref"
)

// Model is the curve y^2 = x^3 + 7 over F_q with its group structure.
type Model struct {
	Q   uint64
	N   int         // group order (prime)
	Pt  [][2]uint64 // Pt[i] = [i]g for i in 1..N-1 (Pt[0] unused: identity)
	idx []int32     // idx[x*Q+y] = i, or -1
	inv []uint64
}

func (m *Model) mul(a, b uint64) uint64 { return a * b % m.Q }
func (m *Model) sub(a, b uint64) uint64 { return (a + m.Q - b) % m.Q }

// affineAdd is the textbook chord-and-tangent law on affine points; inf flags mark the identity.
func (m *Model) affineAdd(p [2]uint64, pInf bool, q [2]uint64, qInf bool) ([2]uint64, bool) {
	switch {
	case pInf:
		return q, qInf
	case qInf:
		return p, pInf
	}

	var l uint64

	if p[0] == q[0] {
		if (p[1]+q[1])%m.Q == 0 {
			return [2]uint64{}, true
		}

		l = m.mul(m.mul(3, m.mul(p[0], p[0])), m.inv[m.mul(2, p[1])])
	} else {
		l = m.mul(m.sub(q[1], p[1]), m.inv[m.sub(q[0], p[0])])
	}

	x3 := m.sub(m.sub(m.mul(l, l), p[0]), q[0])
	y3 := m.sub(m.mul(l, m.sub(p[0], x3)), p[1])

	return [2]uint64{x3, y3}, false
}

// NewModel builds the model for prime q and validates it: q prime, group order prime, generator table complete.
func NewModel(q uint64) (*Model, error) {
	if !new(big.Int).SetUint64(q).ProbablyPrime(20) {
		return nil, fmt.Errorf("q=%d is not prime", q)
	}

	m := &Model{Q: q, inv: make([]uint64, q), idx: make([]int32, q*q)}

	for v := uint64(1); v < q; v++ {
		m.inv[v] = new(big.Int).ModInverse(new(big.Int).SetUint64(v), new(big.Int).SetUint64(q)).Uint64()
	}

	for i := range m.idx {
		m.idx[i] = -1
	}

	var affine [][2]uint64

	for x := uint64(0); x < q; x++ {
		rhs := (x*x%q*x + 7) % q
		for y := uint64(0); y < q; y++ {
			if y*y%q == rhs {
				affine = append(affine, [2]uint64{x, y})
			}
		}
	}

	m.N = len(affine) + 1
	if !big.NewInt(int64(m.N)).ProbablyPrime(20) {
		return nil, fmt.Errorf("q=%d: group order %d is not prime", q, m.N)
	}

	g := affine[0]
	m.Pt = make([][2]uint64, m.N)
	cur, inf := g, false

	for i := 1; i < m.N; i++ {
		if inf {
			return nil, fmt.Errorf("q=%d: generator has order %d < %d", q, i, m.N)
		}

		m.Pt[i] = cur
		if m.idx[cur[0]*q+cur[1]] != -1 {
			return nil, fmt.Errorf("q=%d: point table repeats", q)
		}

		m.idx[cur[0]*q+cur[1]] = int32(i)
		cur, inf = m.affineAdd(cur, false, g, false)
	}

	if !inf {
		return nil, fmt.Errorf("q=%d: [N]g != O", q)
	}

	return m, nil
}

// Rep is a projective representation: element index I (0 = identity) and scaling L in [1, q).
type Rep struct {
	I int
	L uint64
}

// Coords returns the projective coordinates (X, Y, Z) of the representation.
func (m *Model) Coords(r Rep) (x, y, z uint64) {
	if r.I == 0 {
		return 0, r.L, 0
	}

	p := m.Pt[r.I]

	return m.mul(p[0], r.L), m.mul(p[1], r.L), r.L
}

// AllReps lists every valid representation of every group element: N * (q-1) of them, identity first.
func (m *Model) AllReps() []Rep {
	out := make([]Rep, 0, m.N*int(m.Q-1))

	for i := 0; i < m.N; i++ {
		for l := uint64(1); l < m.Q; l++ {
			out = append(out, Rep{i, l})
		}
	}

	return out
}

// Raw is the concrete state of an element: the raw limbs of its three coordinates.
type Raw struct{ X, Y, Z [4]uint64 }

// RawOf reads the concrete state of e.
func RawOf(e *secp256k1.Element) Raw {
	x, y, z := secp256k1.VerifRaw(e)
	return Raw{x, y, z}
}

// RawRep returns the concrete state of a representation.
func (m *Model) RawRep(r Rep) Raw {
	x, y, z := m.Coords(r)
	return Raw{[4]uint64(field.VerifEnc(x)), [4]uint64(field.VerifEnc(y)), [4]uint64(field.VerifEnc(z))}
}

// Elem builds a fresh element in the given concrete state.
func Elem(r Raw) *secp256k1.Element {
	return secp256k1.VerifSetRaw(secp256k1.VerifBlankElement(), r.X, r.Y, r.Z)
}

// NewElem builds a fresh element for a representation.
func (m *Model) NewElem(r Rep) *secp256k1.Element { return Elem(m.RawRep(r)) }

// Abstract maps a concrete state to the representation it is. ok is false if the state is not a valid
// representation (non-canonical limbs, off the curve, Z = 0 with X != 0 or Y = 0).
func (m *Model) Abstract(r Raw) (Rep, bool) {
	fx, fy, fz := field.MontgomeryDomainFieldElement(r.X), field.MontgomeryDomainFieldElement(r.Y), field.MontgomeryDomainFieldElement(r.Z)
	x, okx := field.VerifDec(&fx)
	y, oky := field.VerifDec(&fy)
	z, okz := field.VerifDec(&fz)

	if !okx || !oky || !okz {
		return Rep{}, false
	}

	if z == 0 {
		if x != 0 || y == 0 {
			return Rep{}, false
		}

		return Rep{0, y}, true
	}

	zi := m.inv[z]
	i := m.idx[m.mul(x, zi)*m.Q+m.mul(y, zi)]

	if i < 0 {
		return Rep{}, false
	}

	return Rep{int(i), z}, true
}

// AbstractElem is Abstract(RawOf(e)).
func (m *Model) AbstractElem(e *secp256k1.Element) (Rep, bool) { return m.Abstract(RawOf(e)) }

// Group law of the model on indices.
func (m *Model) Add(i, j int) int { return (i + j) % m.N }
func (m *Model) Neg(i int) int    { return (m.N - i) % m.N }
func (m *Model) Sub(i, j int) int { return (i + m.N - j) % m.N }

// MulBig returns the index of [k][i]g.
func (m *Model) MulBig(k *big.Int, i int) int {
	km := new(big.Int).Mod(k, big.NewInt(int64(m.N))).Int64()
	return int(km * int64(i) % int64(m.N))
}

// Enc is the SEC1 compressed encoding of element i in the small field (33 bytes, 32-byte big-endian x).
func (m *Model) Enc(i int) []byte {
	if i == 0 {
		return []byte{0}
	}

	p := m.Pt[i]
	out := make([]byte, 33)
	out[0] = 2 + byte(p[1]&1)
	big.NewInt(int64(p[0])).FillBytes(out[1:])

	return out
}

// EncUncompressed is 04 || x || y.
func (m *Model) EncUncompressed(i int) []byte {
	if i == 0 {
		return []byte{0}
	}

	p := m.Pt[i]
	out := make([]byte, 65)
	out[0] = 4
	big.NewInt(int64(p[0])).FillBytes(out[1:33])
	big.NewInt(int64(p[1])).FillBytes(out[33:])

	return out
}

// Dec is the acceptance predicate of the decoders over F_q.
func (m *Model) Dec(b []byte, forms int) (int, bool) {
	q := new(big.Int).SetUint64(m.Q)

	switch {
	case len(b) == 1 && forms&ref.FormIdentity != 0:
		if b[0] == 0 {
			return 0, true
		}
	case len(b) == 33 && forms&ref.FormCompressed != 0:
		if b[0] != 2 && b[0] != 3 {
			return 0, false
		}

		x := new(big.Int).SetBytes(b[1:])
		if x.Cmp(q) >= 0 {
			return 0, false
		}

		for y := uint64(0); y < m.Q; y++ {
			if i := m.idx[x.Uint64()*m.Q+y]; i >= 0 && byte(y&1) == b[0]&1 {
				return int(i), true
			}
		}
	case len(b) == 65 && forms&ref.FormUncompressed != 0:
		if b[0] != 4 {
			return 0, false
		}

		return m.DecCoordinates(b[1:33], b[33:])
	}

	return 0, false
}

// DecCoordinates accepts iff x, y < q and the point is on the curve.
func (m *Model) DecCoordinates(xb, yb []byte) (int, bool) {
	q := new(big.Int).SetUint64(m.Q)
	x, y := new(big.Int).SetBytes(xb), new(big.Int).SetBytes(yb)

	if x.Cmp(q) >= 0 || y.Cmp(q) >= 0 {
		return 0, false
	}

	if i := m.idx[x.Uint64()*m.Q+y.Uint64()]; i >= 0 {
		return int(i), true
	}

	return 0, false
}

// Use selects q in the stand-in and returns the validated model.
func Use(q uint64) (*Model, error) {
	m, err := NewModel(q)
	if err != nil {
		return nil, err
	}

	field.VerifSetQ(q)

	return m, nil
}

// Primes returns the primes of the tier: those q = 1 mod 3 for which #E(F_q) is prime.
func Primes(thorough bool) []uint64 {
	if thorough {
		return []uint64{13, 43, 67, 79, 127}
	}

	return []uint64{13, 43}
}
