package smallchk

import (
	"encoding/hex"
	"encoding/json"
	"fmt"
	"math/big"
	"os"
	"strconv"
	"strings"

	"github.com/bytemare/secp256k1/internal/verif/ev"
)

// Part is one sub-check that runs in the small-field binary.
type Part struct {
	Property string
	Run      func(r *ev.Report)
}

// Parts lists the sub-checks by name.
var Parts = map[string]Part{
	"C01small": {"C01", C01small},
	"C02small": {"C02", C02small},
	"C03small": {"C03", C03small},
	"C04small": {"C04", C04small},
	"C05small": {"C05", C05small},
	"C10small": {"C10", C10small},
}

func parseState(m *Model, s string) (State, int) {
	var st State

	v := 0

	for _, f := range strings.Split(strings.Trim(s, "[]"), "][") {
		eq := strings.Index(f, "=")
		st[v] = m.RawRep(repFrom(f[eq+1:]))
		v++
	}

	return st, v
}

func parseOp(s string) Op {
	var o Op

	p := strings.Index(s, "(recv=")
	o.Kind = s[:p]
	fmt.Sscanf(s[p:], "(recv=v%d,arg=v%d,c=%d)", &o.I, &o.J, &o.C)

	return o
}

// Replay re-executes one replay file without the explorer.
func Replay(prop, file string) int {
	b, err := os.ReadFile(file)
	if err != nil {
		fmt.Fprintln(os.Stderr, err)
		return 2
	}

	var doc struct {
		Replay Case `json:"replay"`
	}

	if err := json.Unmarshal(b, &doc); err != nil {
		fmt.Fprintln(os.Stderr, err)
		return 2
	}

	c := doc.Replay
	q, _ := strconv.ParseUint(c["q"], 10, 64)

	m, err := Use(q)
	if err != nil {
		fmt.Fprintln(os.Stderr, err)
		return 2
	}

	var key, detail string

	switch c["op"] {
	case "Multiply":
		var k *big.Int
		if c["k"] != "nil" {
			k, _ = new(big.Int).SetString(c["k"], 16)
		}

		key, detail = m.mulCase(repFrom(c["a"]), k)
	case "Equal":
		key, detail = m.equalCase(repFrom(c["a"]), repFrom(c["b"]))
	case "encode":
		key, detail = m.encodeCase(repFrom(c["a"]))
	case "decode":
		di, _ := strconv.Atoi(c["decoder"])
		which, _ := strconv.Atoi(c["receiver"])
		in, _ := hex.DecodeString(c["input"])
		key, detail, _ = m.decodeCase(di, in, which)
	case "history":
		st, v := parseState(m, c["state"])
		_, key, detail = m.Apply(v, st, parseOp(c["step"]))
	case "globals", "panic":
		fmt.Println("replay: this finding is not tied to a single case; re-run the check")
		return 2
	default:
		key, detail = m.groupCase(c["op"], repFrom(c["a"]), repFrom(c["b"]))
	}

	if key == "" {
		fmt.Println("replay: property holds on this case")
		return 0
	}

	fmt.Printf("replay: violation reproduced: %s %s\n", key, detail)

	return 1
}
