package ref

import (
	"fmt"
	"math/big"
)

// SelfCheck validates the oracles against facts that do not come from the library under test: the SEC2
// generator, the group order, literal k-fold addition, and the ten RFC 9380 vectors (u, Q0, Q1, P).
// A failure is a tool error, never a property violation.
func SelfCheck() error {
	g := G()
	if !Secp.On(g) {
		return fmt.Errorf("generator not on curve")
	}

	if !P.ProbablyPrime(32) || !N.ProbablyPrime(32) {
		return fmt.Errorf("p or n not prime")
	}

	if !Secp.Mul(N, g).Inf {
		return fmt.Errorf("[n]G != O")
	}

	if !Secp.Mul(new(big.Int).Sub(N, one), g).Eq(Secp.Neg(g)) {
		return fmt.Errorf("[n-1]G != -G")
	}

	acc := Infinity()
	for k := int64(0); k <= 300; k++ {
		if !Secp.Mul(big.NewInt(k), g).Eq(acc) {
			return fmt.Errorf("double-and-add disagrees with literal addition at k=%d", k)
		}

		if !Secp.On(acc) {
			return fmt.Errorf("[%d]G off curve", k)
		}

		acc = Secp.Add(acc, g)
	}

	// Montgomery helpers.
	for _, m := range []*big.Int{P, N} {
		for _, v := range []*big.Int{big.NewInt(0), big.NewInt(1), big.NewInt(21), new(big.Int).Sub(m, one)} {
			if Unmont(Mont(v, m), m).Cmp(v) != 0 {
				return fmt.Errorf("Mont/Unmont round trip")
			}
		}
	}

	if Mont(big.NewInt(21), P) != [4]uint64{21 * 4294968273, 0, 0, 0} {
		return fmt.Errorf("Mont(21)")
	}

	// Z = -11 must be a non-square and the isogenous curve parameters must be as in the RFC.
	if Fp.IsSquare(SSWUZ) {
		return fmt.Errorf("Z is a square")
	}

	for i, v := range Vectors {
		msg, dst := []byte(v.Msg), []byte(v.DST)
		ro := len(v.U) == 2
		us := HashToField(msg, dst, len(v.U), P)

		var sum Pt

		for j := range v.U {
			if us[j].Cmp(hexInt(v.U[j])) != 0 {
				return fmt.Errorf("vector %d: u[%d] mismatch", i, j)
			}

			qi, _ := SSWU(us[j])
			if !Iso.On(qi) {
				return fmt.Errorf("vector %d: SSWU output off E'", i)
			}

			q := Iso3(qi)
			if !Secp.On(q) {
				return fmt.Errorf("vector %d: isogeny output off curve", i)
			}

			if q.X.Cmp(hexInt(v.Q[j][0])) != 0 || q.Y.Cmp(hexInt(v.Q[j][1])) != 0 {
				return fmt.Errorf("vector %d: Q%d mismatch", i, j)
			}

			if j == 0 {
				sum = q
			} else {
				sum = Secp.Add(sum, q)
			}
		}

		var p Pt
		if ro {
			p = HashToCurve(msg, dst)
		} else {
			p = EncodeToCurve(msg, dst)
		}

		if !p.Eq(sum) || p.X.Cmp(hexInt(v.Px)) != 0 || p.Y.Cmp(hexInt(v.Py)) != 0 {
			return fmt.Errorf("vector %d: P mismatch", i)
		}
	}

	// expand_message_xmd: RFC 9380 appendix K.1, first vector (DST QUUX-V01-CS02-with-expander-SHA256-128, msg "", 0x20).
	k1 := ExpandXMD([]byte(""), []byte("QUUX-V01-CS02-with-expander-SHA256-128"), 0x20)
	if fmt.Sprintf("%x", k1) != "68a985b87eb6b46952128911f2a4412bbc302a9d759667f87f7a21d803f07235" {
		return fmt.Errorf("expand_message_xmd K.1 vector mismatch: %x", k1)
	}

	return nil
}
