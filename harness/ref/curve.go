package ref

import (
	"math/big"
)

// Pt is an affine point of a short Weierstrass curve, or the point at infinity.
type Pt struct {
	X, Y *big.Int
	Inf  bool
}

// Curve is y^2 = x^3 + A x + B over F_p.
type Curve struct {
	F    Field
	A, B *big.Int
}

// Secp is secp256k1; Iso is the 3-isogenous curve E' of RFC 9380 section 8.7.
var (
	Secp = Curve{Fp, big.NewInt(0), big.NewInt(7)}
	Iso  = Curve{Fp, hexInt("3f8731abdd661adca08a5558f0f5d272e953d363cb6f0e5d405447c01a444533"), big.NewInt(1771)}
)

// Infinity is the neutral element.
func Infinity() Pt { return Pt{Inf: true} }

// G returns the generator of secp256k1.
func G() Pt { return Pt{X: new(big.Int).Set(Gx), Y: new(big.Int).Set(Gy)} }

// RHS returns x^3 + A x + B.
func (c Curve) RHS(x *big.Int) *big.Int {
	t := c.F.Mul(c.F.Sqr(x), x)
	t = c.F.Add(t, c.F.Mul(c.A, x))

	return c.F.Add(t, c.B)
}

// On reports whether p is on the curve.
func (c Curve) On(p Pt) bool {
	if p.Inf {
		return true
	}

	if p.X.Sign() < 0 || p.X.Cmp(c.F.M) >= 0 || p.Y.Sign() < 0 || p.Y.Cmp(c.F.M) >= 0 {
		return false
	}

	return c.F.Sqr(p.Y).Cmp(c.RHS(p.X)) == 0
}

// Eq reports whether a and b are the same point.
func (a Pt) Eq(b Pt) bool {
	if a.Inf || b.Inf {
		return a.Inf == b.Inf
	}

	return a.X.Cmp(b.X) == 0 && a.Y.Cmp(b.Y) == 0
}

// Neg returns -p.
func (c Curve) Neg(p Pt) Pt {
	if p.Inf {
		return p
	}

	return Pt{X: new(big.Int).Set(p.X), Y: c.F.Neg(p.Y)}
}

// Add is the textbook chord-and-tangent law with its four cases.
func (c Curve) Add(p, q Pt) Pt {
	switch {
	case p.Inf:
		return q
	case q.Inf:
		return p
	}

	var l *big.Int

	if p.X.Cmp(q.X) == 0 {
		if c.F.Add(p.Y, q.Y).Sign() == 0 {
			return Infinity()
		}
		// tangent: (3x^2 + A) / 2y
		num := c.F.Add(c.F.Mul(big.NewInt(3), c.F.Sqr(p.X)), c.A)
		l = c.F.Mul(num, c.F.Inv0(c.F.Mul(big.NewInt(2), p.Y)))
	} else {
		l = c.F.Mul(c.F.Sub(q.Y, p.Y), c.F.Inv0(c.F.Sub(q.X, p.X)))
	}

	x3 := c.F.Sub(c.F.Sub(c.F.Sqr(l), p.X), q.X)
	y3 := c.F.Sub(c.F.Mul(l, c.F.Sub(p.X, x3)), p.Y)

	return Pt{X: x3, Y: y3}
}

// Sub returns p - q.
func (c Curve) Sub(p, q Pt) Pt { return c.Add(p, c.Neg(q)) }

// Double returns 2p.
func (c Curve) Double(p Pt) Pt { return c.Add(p, p) }

// Mul returns [k]p by left-to-right double-and-add (k >= 0).
func (c Curve) Mul(k *big.Int, p Pt) Pt {
	r := Infinity()

	for i := k.BitLen() - 1; i >= 0; i-- {
		r = c.Double(r)
		if k.Bit(i) == 1 {
			r = c.Add(r, p)
		}
	}

	return r
}

// LiftX returns the point with abscissa x and the given parity of y, if x^3+Ax+B is a square.
func (c Curve) LiftX(x *big.Int, odd uint) (Pt, bool) {
	if x.Sign() < 0 || x.Cmp(c.F.M) >= 0 {
		return Pt{}, false
	}

	r := c.RHS(x)
	if !c.F.IsSquare(r) {
		return Pt{}, false
	}

	y := c.F.Sqrt(r)
	if y == nil {
		return Pt{}, false
	}

	if y.Bit(0) != odd {
		y = c.F.Neg(y)
	}

	if y.Bit(0) != odd { // y = 0 cannot be made odd
		return Pt{}, false
	}

	return Pt{X: new(big.Int).Set(x), Y: y}, true
}

// ---- SEC1 ------------------------------------------------------------------------------------------------

// Enc returns the SEC1 compressed encoding (00 for the point at infinity).
func Enc(p Pt) []byte {
	if p.Inf {
		return []byte{0}
	}

	out := make([]byte, 33)
	out[0] = 2 + byte(p.Y.Bit(0))
	p.X.FillBytes(out[1:])

	return out
}

// EncUncompressed returns 04 || x || y (00 for the point at infinity).
func EncUncompressed(p Pt) []byte {
	if p.Inf {
		return []byte{0}
	}

	out := make([]byte, 65)
	out[0] = 4
	p.X.FillBytes(out[1:33])
	p.Y.FillBytes(out[33:])

	return out
}

// Forms accepted by a decoder.
const (
	FormIdentity     = 1
	FormCompressed   = 2
	FormUncompressed = 4
	FormAny          = FormIdentity | FormCompressed | FormUncompressed
)

// Dec is the acceptance predicate of the element decoders of secp256k1: it returns the point and true iff b is
// a canonical SEC1 encoding in one of the allowed forms.
func Dec(b []byte, forms int) (Pt, bool) {
	switch {
	case len(b) == 1 && forms&FormIdentity != 0:
		if b[0] == 0 {
			return Infinity(), true
		}
	case len(b) == 33 && forms&FormCompressed != 0:
		if b[0] != 2 && b[0] != 3 {
			return Pt{}, false
		}

		return Secp.LiftX(OS2IP(b[1:]), uint(b[0]&1))
	case len(b) == 65 && forms&FormUncompressed != 0:
		if b[0] != 4 {
			return Pt{}, false
		}

		return DecCoordinates(b[1:33], b[33:])
	}

	return Pt{}, false
}

// DecCoordinates accepts iff x, y < p and y^2 = x^3 + 7.
func DecCoordinates(xb, yb []byte) (Pt, bool) {
	p := Pt{X: OS2IP(xb), Y: OS2IP(yb)}
	if p.X.Cmp(P) >= 0 || p.Y.Cmp(P) >= 0 || !Secp.On(p) {
		return Pt{}, false
	}

	return p, true
}
