// Package ref holds the reference models (oracles). Everything here is written from the mathematical
// definitions and the RFC text with math/big; it shares no code and no constants with the library under test.
package ref

import (
	"fmt"
	"math/big"
)

func hexInt(s string) *big.Int {
	v, ok := new(big.Int).SetString(s, 16)
	if !ok {
		panic("bad hex literal " + s)
	}

	return v
}

var (
	// P is the field prime 2^256 - 2^32 - 977.
	P = hexInt("fffffffffffffffffffffffffffffffffffffffffffffffffffffffefffffc2f")
	// N is the group order.
	N = hexInt("fffffffffffffffffffffffffffffffebaaedce6af48a03bbfd25e8cd0364141")
	// Gx, Gy are the coordinates of the SEC2 generator.
	Gx = hexInt("79be667ef9dcbbac55a06295ce870b07029bfcdb2dce28d959f2815b16f81798")
	Gy = hexInt("483ada7726a3c4655da4fbfc0e1108a8fd17b448a68554199c47d08ffb10d4b8")

	two256 = new(big.Int).Lsh(big.NewInt(1), 256)
	one    = big.NewInt(1)
)

// Two256 returns 2^256.
func Two256() *big.Int { return new(big.Int).Set(two256) }

// I is shorthand for big.NewInt.
func I(v int64) *big.Int { return big.NewInt(v) }

// Limbs returns the four little-endian 64-bit limbs of 0 <= v < 2^256.
func Limbs(v *big.Int) [4]uint64 {
	if v.Sign() < 0 || v.BitLen() > 256 {
		panic(fmt.Sprintf("Limbs: out of range %v", v))
	}

	var (
		out [4]uint64
		buf [32]byte
	)

	v.FillBytes(buf[:])

	for i := 0; i < 4; i++ {
		for j := 0; j < 8; j++ {
			out[i] |= uint64(buf[31-8*i-j]) << (8 * j)
		}
	}

	return out
}

// FromLimbs is the inverse of Limbs.
func FromLimbs(l [4]uint64) *big.Int {
	var buf [32]byte

	for i := 0; i < 4; i++ {
		for j := 0; j < 8; j++ {
			buf[31-8*i-j] = byte(l[i] >> (8 * j))
		}
	}

	return new(big.Int).SetBytes(buf[:])
}

// Mont returns the limbs of v * 2^256 mod m (the Montgomery representation of v for modulus m).
func Mont(v, m *big.Int) [4]uint64 {
	t := new(big.Int).Mul(v, two256)
	return Limbs(t.Mod(t, m))
}

// Unmont returns l * 2^-256 mod m: the value whose Montgomery representation is l (l taken as an integer, which
// need not be < m).
func Unmont(l [4]uint64, m *big.Int) *big.Int {
	rinv := new(big.Int).ModInverse(two256, m)
	t := FromLimbs(l)
	t.Mul(t, rinv)

	return t.Mod(t, m)
}

// Bytes32 returns the 32-byte big-endian encoding of 0 <= v < 2^256.
func Bytes32(v *big.Int) []byte {
	out := make([]byte, 32)
	v.FillBytes(out)

	return out
}

// Arr32 is Bytes32 as an array.
func Arr32(v *big.Int) [32]byte {
	var out [32]byte
	v.FillBytes(out[:])

	return out
}

// OS2IP interprets b as a big-endian integer.
func OS2IP(b []byte) *big.Int { return new(big.Int).SetBytes(b) }

// Mod returns v mod m in [0, m).
func Mod(v, m *big.Int) *big.Int { return new(big.Int).Mod(v, m) }

// Field is arithmetic modulo a prime M.
type Field struct{ M *big.Int }

// Fp and Zn are the two fields of secp256k1.
var (
	Fp = Field{P}
	Zn = Field{N}
)

func (f Field) Add(a, b *big.Int) *big.Int { return Mod(new(big.Int).Add(a, b), f.M) }
func (f Field) Sub(a, b *big.Int) *big.Int { return Mod(new(big.Int).Sub(a, b), f.M) }
func (f Field) Mul(a, b *big.Int) *big.Int { return Mod(new(big.Int).Mul(a, b), f.M) }
func (f Field) Neg(a *big.Int) *big.Int    { return Mod(new(big.Int).Neg(a), f.M) }
func (f Field) Sqr(a *big.Int) *big.Int    { return f.Mul(a, a) }
func (f Field) Exp(a, e *big.Int) *big.Int { return new(big.Int).Exp(a, e, f.M) }

// Inv0 returns 1/a, and 0 for a = 0.
func (f Field) Inv0(a *big.Int) *big.Int {
	a = Mod(a, f.M)
	if a.Sign() == 0 {
		return new(big.Int)
	}

	return new(big.Int).ModInverse(a, f.M)
}

// IsSquare reports whether a is a square modulo M (0 counts as a square).
func (f Field) IsSquare(a *big.Int) bool {
	a = Mod(a, f.M)
	if a.Sign() == 0 {
		return true
	}

	return big.Jacobi(a, f.M) == 1
}

// Sqrt returns a square root of a, or nil.
func (f Field) Sqrt(a *big.Int) *big.Int {
	a = Mod(a, f.M)
	if a.Sign() == 0 {
		return new(big.Int)
	}

	return new(big.Int).ModSqrt(a, f.M)
}

// Sgn0 is the parity of the canonical representative.
func Sgn0(a *big.Int) uint { return a.Bit(0) }
