package ref

import (
	"crypto/sha256"
	"fmt"
	"math/big"
)

// ---- expand_message_xmd (RFC 9380 section 5.3.1, SHA-256) ---------------------------------------------------

// ExpandXMD returns expand_message_xmd(msg, DST, n) for SHA-256, including the oversize-DST rule of 5.3.3.
func ExpandXMD(msg, dst []byte, n int) []byte {
	const bInBytes, sInBytes = 32, 64

	ell := (n + bInBytes - 1) / bInBytes
	if ell > 255 || n > 65535 {
		panic("ExpandXMD: length out of range")
	}

	if len(dst) > 255 {
		h := sha256.New()
		h.Write([]byte("H2C-OVERSIZE-DST-"))
		h.Write(dst)
		dst = h.Sum(nil)
	}

	dstPrime := append(append([]byte{}, dst...), byte(len(dst)))

	h := sha256.New()
	h.Write(make([]byte, sInBytes))
	h.Write(msg)
	h.Write([]byte{byte(n >> 8), byte(n)})
	h.Write([]byte{0})
	h.Write(dstPrime)
	b0 := h.Sum(nil)

	h = sha256.New()
	h.Write(b0)
	h.Write([]byte{1})
	h.Write(dstPrime)
	bi := h.Sum(nil)

	out := append([]byte{}, bi...)

	for i := 2; i <= ell; i++ {
		x := make([]byte, bInBytes)
		for j := range x {
			x[j] = b0[j] ^ bi[j]
		}

		h = sha256.New()
		h.Write(x)
		h.Write([]byte{byte(i)})
		h.Write(dstPrime)
		bi = h.Sum(nil)
		out = append(out, bi...)
	}

	return out[:n]
}

// HashToField returns count elements of Z/mZ (L = 48, m = 1) as in section 5.2.
func HashToField(msg, dst []byte, count int, m *big.Int) []*big.Int {
	const l = 48

	uniform := ExpandXMD(msg, dst, count*l)
	out := make([]*big.Int, count)

	for i := range out {
		out[i] = Mod(OS2IP(uniform[l*i:l*i+l]), m)
	}

	return out
}

// HashToScalar is hash_to_field over the group order with count = 1.
func HashToScalar(msg, dst []byte) *big.Int { return HashToField(msg, dst, 1, N)[0] }

// ---- simplified SWU, generic version of section 6.6.2 -----------------------------------------------------

// SSWUZ is the constant Z = -11 of the secp256k1 suites.
var SSWUZ = Mod(big.NewInt(-11), P)

// SSWUInfo tells which branches a map_to_curve evaluation took.
type SSWUInfo struct {
	Exceptional bool // tv1 == 0
	Gx1Square   bool
	Flipped     bool // y negated by the sign fix-up
}

// SSWU maps u to a point of the isogenous curve E' with the generic algorithm of section 6.6.2.
func SSWU(u *big.Int) (Pt, SSWUInfo) {
	var info SSWUInfo

	f, a, b, z := Fp, Iso.A, Iso.B, SSWUZ
	u2 := f.Sqr(u)
	zu2 := f.Mul(z, u2)
	tv1 := f.Inv0(f.Add(f.Sqr(zu2), zu2))                              // 1. tv1 = inv0(Z^2 u^4 + Z u^2)
	x1 := f.Mul(f.Mul(f.Neg(b), f.Inv0(a)), f.Add(big.NewInt(1), tv1)) // 2. x1 = (-B / A) (1 + tv1)

	if tv1.Sign() == 0 { // 3.
		info.Exceptional = true
		x1 = f.Mul(b, f.Inv0(f.Mul(z, a)))
	}

	gx1 := Iso.RHS(x1)   // 4.
	x2 := f.Mul(zu2, x1) // 5.
	gx2 := Iso.RHS(x2)   // 6.

	var x, y *big.Int

	if f.IsSquare(gx1) { // 7.
		info.Gx1Square = true
		x, y = x1, f.Sqrt(gx1)
	} else { // 8.
		x, y = x2, f.Sqrt(gx2)
	}

	if y == nil {
		panic(fmt.Sprintf("SSWU oracle: neither gx1 nor gx2 is a square for u=%x", u))
	}

	if Sgn0(u) != Sgn0(y) { // 9.
		info.Flipped = true
		y = f.Neg(y)
	}

	return Pt{X: x, Y: y}, info
}

// ---- 3-isogeny map of appendix E.1 (constants typed from the RFC) -------------------------------------------

var isoK = [5][4]*big.Int{
	1: {
		hexInt("8e38e38e38e38e38e38e38e38e38e38e38e38e38e38e38e38e38e38daaaaa8c7"),
		hexInt("07d3d4c80bc321d5b9f315cea7fd44c5d595d2fc0bf63b92dfff1044f17c6581"),
		hexInt("534c328d23f234e6e2a413deca25caece4506144037c40314ecbd0b53d9dd262"),
		hexInt("8e38e38e38e38e38e38e38e38e38e38e38e38e38e38e38e38e38e38daaaaa88c"),
	},
	2: {
		hexInt("d35771193d94918a9ca34ccbb7b640dd86cd409542f8487d9fe6b745781eb49b"),
		hexInt("edadc6f64383dc1df7c4b2d51b54225406d36b641f5e41bbc52a56612a8c6d14"),
		big.NewInt(1), // x'^2 (monic)
		nil,
	},
	3: {
		hexInt("4bda12f684bda12f684bda12f684bda12f684bda12f684bda12f684b8e38e23c"),
		hexInt("c75e0c32d5cb7c0fa9d0a54b12a0a6d5647ab046d686da6fdffc90fc201d71a3"),
		hexInt("29a6194691f91a73715209ef6512e576722830a201be2018a765e85a9ecee931"),
		hexInt("2f684bda12f684bda12f684bda12f684bda12f684bda12f684bda12f38e38d84"),
	},
	4: {
		hexInt("fffffffffffffffffffffffffffffffffffffffffffffffffffffffefffff93b"),
		hexInt("7a06534bb8bdb49fd5e9e6632722c2989467c1bfc8e8d978dfb425d2685c2573"),
		hexInt("6484aa716545ca2cf3a70c3fa8fe337e0a3d21162f0d6299a7bf8192bfd2a76f"),
		big.NewInt(1), // x'^3 (monic)
	},
}

func polyEval(k [4]*big.Int, x *big.Int) *big.Int {
	acc := new(big.Int)

	for i := 3; i >= 0; i-- {
		acc = Fp.Mul(acc, x)
		if k[i] != nil {
			acc = Fp.Add(acc, k[i])
		}
	}

	return acc
}

// IsoDenominators returns x_den and y_den of the isogeny at x'.
func IsoDenominators(x *big.Int) (xd, yd *big.Int) { return polyEval(isoK[2], x), polyEval(isoK[4], x) }

// Iso3 applies the 3-isogeny E' -> secp256k1 as the rational map of appendix E.1. A zero denominator maps to
// the point at infinity (section 6.6.3).
func Iso3(p Pt) Pt {
	if p.Inf {
		return p
	}

	xn, xd := polyEval(isoK[1], p.X), polyEval(isoK[2], p.X)
	yn, yd := polyEval(isoK[3], p.X), polyEval(isoK[4], p.X)

	if xd.Sign() == 0 || yd.Sign() == 0 {
		return Infinity()
	}

	return Pt{X: Fp.Mul(xn, Fp.Inv0(xd)), Y: Fp.Mul(p.Y, Fp.Mul(yn, Fp.Inv0(yd)))}
}

// MapToCurve is map_to_curve of the secp256k1 suites: SSWU on E' followed by the isogeny.
func MapToCurve(u *big.Int) Pt {
	q, _ := SSWU(u)
	return Iso3(q)
}

// HashToCurve is hash_to_curve of suite secp256k1_XMD:SHA-256_SSWU_RO_, following section 3 literally: both
// field elements are mapped to secp256k1 separately and added there.
func HashToCurve(msg, dst []byte) Pt {
	u := HashToField(msg, dst, 2, P)
	return Secp.Add(MapToCurve(u[0]), MapToCurve(u[1]))
}

// EncodeToCurve is encode_to_curve of suite secp256k1_XMD:SHA-256_SSWU_NU_.
func EncodeToCurve(msg, dst []byte) Pt {
	u := HashToField(msg, dst, 1, P)
	return MapToCurve(u[0])
}
