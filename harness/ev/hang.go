package ev

import (
	"fmt"
	"os"
	"runtime"
	"strconv"
	"strings"
	"sync"
	"time"
)

// Hang watchdog (round 34). The pinned library never blocks: no call waits for anything. A changed tree can - a
// semaphore channel whose token a panic path does not return, a lock that an error path leaks, a worker that is one
// result behind - and then some LATER, ordinary call never returns. Without a guard such a part would either die with
// the Go runtime's "all goroutines are asleep" (a tool error) or hang until the runner's hard timeout. Every report
// therefore starts a watchdog: when no counter of the report has moved for HangAfter, the stacks of all goroutines are
// examined; if one of them is parked in a channel operation, lock or wait whose nearest non-runtime caller is a function
// OF THE LIBRARY (module packages outside internal/verif), the hang is the library's and is reported as a violation
// ("call-never-returns/<function>", with the parked goroutine's frames) and the part ends at once with its evidence
// written; otherwise the watchdog keeps quiet (a long phase of the harness itself) and the runner's hard timeout remains
// the backstop.

// HangAfter is the no-progress interval after which the watchdog acts (VERIF_HANG_S, default 90 s).
func hangAfter() time.Duration {
	if s := os.Getenv("VERIF_HANG_S"); s != "" {
		if v, err := strconv.Atoi(s); err == nil && v > 0 {
			return time.Duration(v) * time.Second
		}
	}

	return 90 * time.Second
}

// GuardProcess is the watchdog of a helper process that has no report (the cold-start children of the race pass): if the
// process is still running after the hang interval, it prints where it is parked and exits - status 3 and a line
// starting with COLD-CALL-NEVER-RETURNS when a goroutine is parked inside the library (the parent reports that as a
// violation); otherwise it keeps waiting.
func GuardProcess() {
	go func() {
		for {
			time.Sleep(hangAfter())

			// only a goroutine parked INSIDE the library ends the process; a helper that is merely slow on a busy
			// machine keeps running
			if fn, excerpt := blockedInLibrary(hangAfter() >= 90*time.Second); fn != "" {
				fmt.Printf("COLD-CALL-NEVER-RETURNS %s: %s\n", fn, excerpt)
				os.Exit(3)
			}
		}
	}()
}

// Heartbeat lets long phases that move no counter (building an alphabet, an external build) tell the watchdog that
// the part is alive.
func (r *Report) Heartbeat() { r.beat.Add(1) }

// progress sums the counters of every report of the process (a part may drive a second, scratch report).
func progress() int64 {
	regMu.Lock()
	defer regMu.Unlock()

	var n int64
	for _, r := range registry {
		n += r.States.Load() + r.Transitions.Load() + r.Evals.Load() + r.Traces.Load() + r.Distinct.Load() + r.beat.Load()
	}

	return n
}

var (
	regMu    sync.Mutex
	registry []*Report
)

func (r *Report) startWatchdog() {
	limit := hangAfter()

	regMu.Lock()
	registry = append(registry, r)
	regMu.Unlock()

	go func() {
		last, since := progress(), time.Now()

		for {
			time.Sleep(2 * time.Second)

			if r.finished.Load() {
				return
			}

			if p := progress(); p != last {
				last, since = p, time.Now()
				continue
			}

			if time.Since(since) < limit {
				continue
			}

			// With the default interval the parked goroutine must itself have been waiting for at least a minute (the
			// runtime prints the duration from one minute on): a helper that is merely slow is not a hang.
			fn, excerpt := blockedInLibrary(limit >= 90*time.Second)
			if fn == "" {
				// Nothing is parked inside the library: a long phase of the harness itself (building an alphabet, an
				// external build on a busy machine). Not this watchdog's business; the runner's hard timeout remains.
				since = time.Now()
				continue
			}

			r.Violation("call-never-returns/"+fn, fmt.Sprintf("no progress for %v; a goroutine is parked inside the library and nothing can wake it: %s", limit, excerpt), map[string]string{"op": "hang", "function": fn})
			os.Exit(r.Finish())
		}
	}()
}

const modulePrefix = "github.com/bytemare/secp256k1"

// blockedInLibrary looks for a goroutine parked in a blocking operation whose nearest caller outside the runtime, the
// sync packages and the harness's shims is a library function.
func blockedInLibrary(longParked bool) (fn, excerpt string) {
	buf := make([]byte, 8<<20)
	buf = buf[:runtime.Stack(buf, true)]
	first := ""

	for _, g := range strings.Split(string(buf), "\n\n") {
		lines := strings.Split(g, "\n")
		if len(lines) < 3 || !strings.HasPrefix(lines[0], "goroutine ") {
			continue
		}

		state := lines[0]
		if i := strings.Index(state, "["); i >= 0 {
			state = state[i:]
		}

		parked := false

		for _, s := range []string{"[chan send", "[chan receive", "[select", "[semacquire", "[sync.", "[IO wait"} {
			parked = parked || strings.HasPrefix(state, s)
		}

		if !parked || (longParked && !strings.Contains(lines[0], "minutes")) {
			continue
		}

		// frames: function line, then "\t file:line" line
		for i := 1; i+1 < len(lines); i += 2 {
			f := strings.TrimSpace(lines[i])
			if j := strings.LastIndex(f, "("); j > 0 {
				f = f[:j]
			}

			switch {
			case strings.HasPrefix(f, "runtime."), strings.HasPrefix(f, "sync."), strings.HasPrefix(f, "sync/atomic."), strings.HasPrefix(f, "internal/"),
				strings.HasPrefix(f, modulePrefix+"/internal/verif/vsync."), strings.HasPrefix(f, modulePrefix+"/internal/verif/vatomic."),
				strings.HasPrefix(f, modulePrefix+"/internal/verif/verifrt."):
				continue
			}

			if strings.HasPrefix(f, modulePrefix) && !strings.HasPrefix(f, modulePrefix+"/internal/verif/") {
				short := strings.TrimPrefix(strings.TrimPrefix(f, modulePrefix), "/")
				short = strings.TrimPrefix(short, ".")
				n := len(lines)
				if n > 13 {
					n = 13
				}

				return short, strings.Join(lines[:n], " | ")
			}

			if first == "" {
				n := len(lines)
				if n > 9 {
					n = 9
				}

				first = strings.Join(lines[:n], " | ")
			}

			break
		}
	}

	return "", first
}
