// Package ev collects what a check run covered and what it found, and writes it as a partial evidence file that
// bin/check merges (several build variants can contribute to one property).
package ev

import (
	"encoding/json"
	"fmt"
	"os"
	"runtime"
	"sort"
	"strconv"
	"strings"
	"sync"
	"sync/atomic"
	"time"
)

// Violation is one property violation, reduced to a stable key.
type Violation struct {
	Key    string `json:"key"`
	Detail string `json:"detail"`
	Replay any    `json:"replay"`
	Count  int64  `json:"count"`
}

// Report accumulates coverage counters, samples and violations. All methods are safe for concurrent use.
type Report struct {
	ID      string
	Part    string // sub-check name (one binary may contribute several parts)
	Variant string
	Tier    string
	Seed    int64

	mu          sync.Mutex
	counters    map[string]int64
	samples     []any
	violations  map[string]*Violation
	vorder      []string
	notes       []string
	assumptions []string
	bounds      map[string]any
	rule        string
	start       time.Time
	deadline    time.Time

	States      atomic.Int64
	Transitions atomic.Int64
	Evals       atomic.Int64
	Traces      atomic.Int64
	Distinct    atomic.Int64
	exhaustive  bool
	toolErr     string
	beat        atomic.Int64
	finished    atomic.Bool
}

// New creates a report from the environment (VERIF_TIER, VERIF_SEED, VERIF_BUDGET_S).
func New(id, part, variant string) *Report {
	// a part run on another platform (GOARCH=386 cross-build) carries the platform in its name
	part += os.Getenv("VERIF_PART_SUFFIX")

	r := &Report{
		ID: id, Part: part, Variant: variant, Tier: Tier(), Seed: Seed(),
		counters: map[string]int64{}, violations: map[string]*Violation{}, bounds: map[string]any{},
		start: time.Now(), exhaustive: true,
	}

	budget := 0
	if s := os.Getenv("VERIF_BUDGET_S"); s != "" {
		budget, _ = strconv.Atoi(s)
	}

	if budget > 0 {
		r.deadline = r.start.Add(time.Duration(budget) * time.Second)
	}

	r.startWatchdog()

	return r
}

// Tier returns "quick" or "thorough".
func Tier() string {
	if os.Getenv("VERIF_TIER") == "thorough" {
		return "thorough"
	}

	return "quick"
}

// Thorough reports whether the thorough tier was requested.
func Thorough() bool { return Tier() == "thorough" }

// Seed returns VERIF_SEED (0 when unset). Seeds only ever add alphabet members.
func Seed() int64 {
	v, _ := strconv.ParseInt(os.Getenv("VERIF_SEED"), 10, 64)
	return v
}

// Expired reports whether the optional wall-clock guard has fired. A check that stops because of it must call
// Incomplete: a deadline never produces a verdict, only exhaustive:false.
func (r *Report) Expired() bool { return !r.deadline.IsZero() && time.Now().After(r.deadline) }

// Incomplete records that part of the planned space was not explored.
func (r *Report) Incomplete(why string) {
	r.mu.Lock()
	defer r.mu.Unlock()
	r.exhaustive = false
	r.notes = append(r.notes, "incomplete: "+why)
}

// Count adds n to a named outcome counter.
func (r *Report) Count(name string, n int64) {
	r.mu.Lock()
	r.counters[name] += n
	r.mu.Unlock()
}

// Counter returns the current value of a named counter.
func (r *Report) Counter(name string) int64 {
	r.mu.Lock()
	defer r.mu.Unlock()

	return r.counters[name]
}

// Merge adds a worker-local counter map.
func (r *Report) Merge(m map[string]int64) {
	r.mu.Lock()
	for k, v := range m {
		r.counters[k] += v
	}
	r.mu.Unlock()
}

// Sample records an explored case (the first few only).
func (r *Report) Sample(v any) {
	r.mu.Lock()
	if len(r.samples) < 6 {
		r.samples = append(r.samples, v)
	}
	r.mu.Unlock()
}

// Note adds free text to the evidence.
func (r *Report) Note(format string, a ...any) {
	r.mu.Lock()
	r.notes = append(r.notes, fmt.Sprintf(format, a...))
	r.mu.Unlock()
}

// PackageState reports that package-level variables of the library changed. Only C16 states "the package keeps no
// mutable global state"; under every other property the observation is recorded as a note (a lazily built table is
// not a wrong result, a modified operand or a write to caller memory - what goes wrong BECAUSE of such state shows in
// the property's own oracle), so that a tree on which the other property holds raises no alarm there.
func (r *Report) PackageState(key, detail string, replay any) {
	if r.ID == "C16" {
		r.Violation(key, detail, replay)
		return
	}

	r.mu.Lock()
	defer r.mu.Unlock()

	for _, n := range r.notes {
		if strings.HasPrefix(n, "package-level state changed (") {
			return
		}
	}

	if len(detail) > 400 {
		detail = detail[:400] + "..."
	}

	r.notes = append(r.notes, "package-level state changed (not a violation of this property; property C16 forbids it and its check reports it): "+detail)
}

// Assume records a trust assumption.
func (r *Report) Assume(s string) {
	r.mu.Lock()
	r.assumptions = append(r.assumptions, s)
	r.mu.Unlock()
}

// Bound records a bound that was completed.
func (r *Report) Bound(name string, v any) {
	r.mu.Lock()
	r.bounds[name] = v
	r.mu.Unlock()
}

// Rule describes how cases are enumerated.
func (r *Report) Rule(s string) {
	r.mu.Lock()
	if r.rule != "" {
		r.rule += " | "
	}
	r.rule += s
	r.mu.Unlock()
}

// Violation records a violation under a stable key; the first occurrence per key keeps its replay data.
func (r *Report) Violation(key, detail string, replay any) {
	r.mu.Lock()
	defer r.mu.Unlock()

	if v, ok := r.violations[key]; ok {
		v.Count++
		return
	}

	if len(detail) > 4000 {
		detail = detail[:4000] + " ... (truncated)"
	}

	r.violations[key] = &Violation{Key: key, Detail: detail, Replay: replay, Count: 1}
	r.vorder = append(r.vorder, key)
}

// NViolations returns the number of distinct violation keys so far.
func (r *Report) NViolations() int {
	r.mu.Lock()
	defer r.mu.Unlock()

	return len(r.violations)
}

// ToolError records a failure of the machinery itself (oracle self-check, vacuous exploration, ...).
func (r *Report) ToolError(format string, a ...any) {
	r.mu.Lock()
	if r.toolErr == "" {
		r.toolErr = fmt.Sprintf(format, a...)
	}
	r.mu.Unlock()
}

// RequireNonVacuous turns a zero count of an outcome class that must occur into a tool error.
func (r *Report) RequireNonVacuous(names ...string) {
	for _, n := range names {
		if r.Counter(n) == 0 {
			r.ToolError("vacuous exploration: outcome class %q never occurred", n)
		}
	}
}

type partial struct {
	PropertyID  string           `json:"property_id"`
	Part        string           `json:"part"`
	Variant     string           `json:"variant"`
	Tier        string           `json:"tier"`
	Seed        int64            `json:"seed"`
	States      int64            `json:"states"`
	Transitions int64            `json:"transitions"`
	Evaluations int64            `json:"evaluations"`
	Distinct    int64            `json:"distinct_nontrivial"`
	Traces      int64            `json:"traces_validated_against_impl"`
	Exhaustive  bool             `json:"exhaustive"`
	Rule        string           `json:"rule"`
	Counters    map[string]int64 `json:"outcome_counts"`
	Bounds      map[string]any   `json:"bounds"`
	Samples     []any            `json:"samples"`
	Notes       []string         `json:"notes"`
	Assumptions []string         `json:"assumptions"`
	Violations  []*Violation     `json:"violations"`
	ToolError   string           `json:"tool_error"`
	WallS       float64          `json:"wall_s"`
}

// Finish writes the partial evidence to the file named by VERIF_OUT (appending one JSON document per line) and
// returns the process exit status: 0 clean, 1 violations, 2 tool error.
func (r *Report) Finish() int {
	r.finished.Store(true)
	r.mu.Lock()
	defer r.mu.Unlock()

	p := partial{
		PropertyID: r.ID, Part: r.Part, Variant: r.Variant, Tier: r.Tier, Seed: r.Seed,
		States: r.States.Load(), Transitions: r.Transitions.Load(), Evaluations: r.Evals.Load(),
		Distinct: r.Distinct.Load(), Traces: r.Traces.Load(), Exhaustive: r.exhaustive, Rule: r.rule,
		Counters: r.counters, Bounds: r.bounds, Samples: r.samples, Notes: r.notes, Assumptions: r.assumptions,
		ToolError: r.toolErr, WallS: time.Since(r.start).Seconds(),
	}

	sort.Strings(r.vorder)

	for _, k := range r.vorder {
		p.Violations = append(p.Violations, r.violations[k])
	}

	b, err := json.Marshal(p)
	if err != nil {
		fmt.Fprintln(os.Stderr, "ev: cannot marshal evidence:", err)
		return 2
	}

	if out := os.Getenv("VERIF_OUT"); out != "" {
		f, err := os.OpenFile(out, os.O_APPEND|os.O_CREATE|os.O_WRONLY, 0o644)
		if err != nil {
			fmt.Fprintln(os.Stderr, "ev:", err)
			return 2
		}

		f.Write(append(b, '\n'))
		f.Close()
	}

	fmt.Fprintf(os.Stderr, "[%s/%s/%s] states=%d transitions=%d evals=%d traces=%d exhaustive=%v violations=%d wall=%.1fs\n",
		r.ID, r.Part, r.Variant, p.States, p.Transitions, p.Evaluations, p.Traces, p.Exhaustive, len(p.Violations), p.WallS)

	for _, v := range p.Violations {
		fmt.Fprintf(os.Stderr, "  violation key=%s count=%d: %s\n", v.Key, v.Count, v.Detail)
	}

	switch {
	case r.toolErr != "":
		fmt.Fprintln(os.Stderr, "TOOL-ERROR:", r.toolErr)
		return 2
	case len(p.Violations) > 0:
		return 1
	}

	return 0
}

// Workers is the number of parallel workers used by ParFor.
func Workers() int {
	if s := os.Getenv("VERIF_WORKERS"); s != "" {
		if n, err := strconv.Atoi(s); err == nil && n > 0 {
			return n
		}
	}

	n := runtime.NumCPU()
	if n > 16 {
		n = 16
	}

	return n
}

// ParFor runs f(worker, i) for every i in [0, n), statically interleaved over the workers (worker w gets
// i = w, w+W, ...), so the partition is deterministic.
func ParFor(n int, f func(worker, i int)) {
	w := Workers()
	if w > n {
		w = n
	}

	if w <= 1 {
		for i := 0; i < n; i++ {
			f(0, i)
		}

		return
	}

	var wg sync.WaitGroup

	for k := 0; k < w; k++ {
		wg.Add(1)

		go func(k int) {
			defer wg.Done()

			for i := k; i < n; i += w {
				f(k, i)
			}
		}(k)
	}

	wg.Wait()
}

// ParFor is the package-level ParFor with a panic guard: a panic inside the code under test is recorded as a
// violation (no property permits a crash on an in-domain input) and the enumeration continues.
func (r *Report) ParFor(n int, f func(worker, i int)) {
	ParFor(n, func(w, i int) {
		defer func() {
			if p := recover(); p != nil {
				buf := make([]byte, 2048)
				buf = buf[:runtime.Stack(buf, false)]
				r.Violation("panic", fmt.Sprintf("index %d: %v\n%s", i, p, buf), map[string]string{"op": "panic", "index": strconv.Itoa(i)})
			}
		}()

		f(w, i)
	})
}

// Catch runs f and returns the recovered panic value, if any.
func Catch(f func()) (p any) {
	defer func() { p = recover() }()
	f()

	return nil
}
