// Package sched is a cooperative scheduler with preemption-bounded depth-first exploration of thread
// interleavings (DESIGN.md sections 3.4 and 4/C16). Harness threads are goroutines that run one at a time; the
// function-entry hook of the instrumented build is the scheduling point.
package sched

import (
	"fmt"

	"github.com/bytemare/secp256k1/internal/verif/verifrt"
)

// Decision: at scheduling point Point run thread To (instead of the default).
type Decision struct {
	Point int `json:"point"`
	To    int `json:"to"`
}

const (
	kindInitial = iota
	kindHook
	kindFinish
)

type thread struct {
	body   func()
	resume chan struct{}
	done   bool
}

// Exec is one controlled execution.
type Exec struct {
	threads []*thread
	cur     int
	plan    []Decision
	planPos int
	isPoint []bool // function id -> scheduling point at this granularity
	mainCh  chan struct{}

	// recording (one entry per scheduling point)
	Kind    []uint8
	Cur     []int8
	Alive   []uint8
	Hash    []uint64
	h       uint64
	Diverge string
	maxPts  int
	panicV  any

	collapse     bool // collapse chains of consecutive scheduling-point entries into one point
	lastWasPoint bool
}

func (e *Exec) aliveMask() uint8 {
	var m uint8

	for i, t := range e.threads {
		if !t.done {
			m |= 1 << i
		}
	}

	return m
}

func lowest(mask uint8) int {
	for i := 0; i < 8; i++ {
		if mask&(1<<i) != 0 {
			return i
		}
	}

	return -1
}

// point records a scheduling point and returns the thread that must run next.
func (e *Exec) point(kind uint8, id int) int {
	p := len(e.Kind)
	alive := e.aliveMask()
	e.h = (e.h ^ uint64(uint32(id)+1)<<8 ^ uint64(e.cur+1)) * 1099511628211
	e.Kind = append(e.Kind, kind)
	e.Cur = append(e.Cur, int8(e.cur))
	e.Alive = append(e.Alive, alive)
	e.Hash = append(e.Hash, e.h)

	next := e.cur
	if kind != kindHook {
		next = lowest(alive)
	}

	if e.planPos < len(e.plan) && e.plan[e.planPos].Point == p {
		next = e.plan[e.planPos].To
		e.planPos++

		if next < 0 || next >= len(e.threads) || alive&(1<<next) == 0 {
			e.Diverge = fmt.Sprintf("planned thread %d is not runnable at point %d", next, p)
			next = lowest(alive)
		}
	}

	return next
}

func (e *Exec) hook(id int) {
	if !e.isPoint[id] {
		e.lastWasPoint = false
		return
	}

	// a chain of wrappers (Add -> add -> addProjectiveComplete) enters several functions with nothing in between:
	// when the granularity is coarser than "every function" only the first entry of such a chain is a scheduling
	// point (preempting between two consecutive entries is the same interleaving)
	if e.collapse && e.lastWasPoint {
		return
	}

	e.lastWasPoint = true

	if len(e.Kind) > e.maxPts {
		return // horizon: beyond it the running thread simply continues
	}

	me := e.cur
	next := e.point(kindHook, id)

	if next != me {
		e.cur = next
		e.threads[next].resume <- struct{}{}
		<-e.threads[me].resume
	}
}

func (e *Exec) finish(me int) {
	e.threads[me].done = true

	if e.aliveMask() == 0 {
		e.mainCh <- struct{}{}
		return
	}

	next := e.point(kindFinish, -1)
	e.cur = next
	e.threads[next].resume <- struct{}{}
}

// Run executes bodies under plan. isPoint selects the scheduling-point granularity.
func Run(bodies []func(), plan []Decision, isPoint []bool) *Exec {
	e := &Exec{plan: plan, isPoint: isPoint, mainCh: make(chan struct{}, 1), h: 1469598103934665603, maxPts: 1 << 20}

	for _, p := range isPoint {
		if !p {
			e.collapse = true // coarse granularity
			break
		}
	}

	for _, b := range bodies {
		e.threads = append(e.threads, &thread{body: b, resume: make(chan struct{})})
	}

	for i, t := range e.threads {
		go func(i int, t *thread) {
			<-t.resume

			defer func() {
				if p := recover(); p != nil {
					if e.panicV == nil {
						e.panicV = p
					}
				}

				e.finish(i)
			}()

			t.body()
		}(i, t)
	}

	e.cur = -1
	first := e.point(kindInitial, -2)
	e.cur = first
	verifrt.Hook = e.hook
	e.threads[first].resume <- struct{}{}
	<-e.mainCh
	verifrt.Hook = nil

	if e.planPos < len(e.plan) && e.Diverge == "" {
		e.Diverge = fmt.Sprintf("execution ended after %d points before planned decision %d (at point %d) was reached", len(e.Kind), e.planPos, e.plan[e.planPos].Point)
	}

	return e
}

// Panic returns the first panic raised by a thread body, if any.
func (e *Exec) Panic() any { return e.panicV }

// Preemptions counts the planned decisions that switch away from a running thread.
func (e *Exec) Preemptions() int {
	n := 0

	for _, d := range e.plan {
		if d.Point < len(e.Kind) && e.Kind[d.Point] == kindHook {
			n++
		}
	}

	return n
}

// Explorer enumerates all schedules with at most Bound preemptions.
type Explorer struct {
	Bound     int
	IsPoint   []bool
	NewBodies func() []func()                            // fresh bodies (and fresh shared state) for one execution
	Check     func(e *Exec, plan []Decision) (stop bool) // called after every execution
	Schedules int64
	Points    int64
	MaxPoints int
	ToolErr   string
	Budget    func() bool // returns true when exploration must stop (wall-clock guard)
	Stopped   bool
}

// Explore runs the depth-first search from the empty plan.
func (x *Explorer) Explore() { x.explore(nil, 0, nil) }

func (x *Explorer) explore(plan []Decision, preempt int, parentHash []uint64) {
	if x.ToolErr != "" || x.Stopped {
		return
	}

	if x.Budget != nil && x.Schedules%64 == 0 && x.Budget() {
		x.Stopped = true
		return
	}

	e := Run(x.NewBodies(), plan, x.IsPoint)
	x.Schedules++
	x.Points += int64(len(e.Kind))

	if len(e.Kind) > x.MaxPoints {
		x.MaxPoints = len(e.Kind)
	}

	if e.Diverge != "" {
		x.ToolErr = "replay of a recorded schedule prefix diverged: " + e.Diverge
		return
	}

	// the prefix up to the last planned decision must replay exactly as it was recorded by the parent
	if n := len(plan); n > 0 && parentHash != nil {
		p := plan[n-1].Point
		if p >= len(e.Hash) || e.Hash[p] != parentHash[p] {
			x.ToolErr = fmt.Sprintf("nondeterminism: prefix of %d points did not replay identically", p+1)
			return
		}
	}

	if x.Check(e, plan) {
		x.Stopped = true
		return
	}

	start := 0
	if len(plan) > 0 {
		start = plan[len(plan)-1].Point + 1
	}

	for p := start; p < len(e.Kind); p++ {
		cost := preempt
		def := int(e.Cur[p])

		if e.Kind[p] == kindHook {
			cost++
		} else {
			def = lowest(e.Alive[p])
		}

		if cost > x.Bound {
			continue
		}

		for t := 0; t < 8; t++ {
			if e.Alive[p]&(1<<t) == 0 || t == def {
				continue
			}

			child := append(append(make([]Decision, 0, len(plan)+1), plan...), Decision{p, t})
			x.explore(child, cost, e.Hash)

			if x.ToolErr != "" || x.Stopped {
				return
			}
		}
	}
}
