// Package sched is a cooperative scheduler with preemption-bounded depth-first exploration of thread
// interleavings (DESIGN.md sections 3.4 and 4/C16). Harness threads are goroutines that run one at a time; the
// function-entry hook of the instrumented build is the scheduling point.
package sched

import (
	"fmt"
	"time"

	"github.com/bytemare/secp256k1/internal/verif/verifrt"
	"github.com/bytemare/secp256k1/internal/verif/vsync"
)

// Decision: at scheduling point Point run thread To (instead of the default).
type Decision struct {
	Point int `json:"point"`
	To    int `json:"to"`
}

const (
	kindInitial = iota
	kindHook    // function entry or synchronisation operation: the running thread could continue (switching away is a preemption)
	kindFinish  // the running thread ended
	kindBlock   // the running thread waits (lock held by another thread, WaitGroup, condition): it cannot continue
)

// maxThreads bounds harness threads plus goroutines started by the library in one execution.
const maxThreads = 30

// StuckAfter is the watchdog of one execution: a tree that blocks in a way the scheduler does not own (channel
// operations, spin loops on plain memory) makes no progress; the exploration is then abandoned as incomplete.
var StuckAfter = 20 * time.Second

type deadlockSentinel struct{}

type thread struct {
	body   func()
	resume chan struct{}
	done   bool
}

// Exec is one controlled execution.
type Exec struct {
	threads []*thread
	cur     int
	plan    []Decision
	planPos int
	isPoint []bool // function id -> scheduling point at this granularity
	mainCh  chan struct{}

	// recording (one entry per scheduling point)
	Kind    []uint8
	Cur     []int8
	Alive   []uint32 // threads that may be chosen at the point (alive and not waiting)
	Def     []int8   // the default choice at the point
	Hash    []uint64
	h       uint64
	Diverge string
	maxPts  int
	panicV  any

	// synchronisation (library-side sync / atomic / go statements, redirected by the instrumentation)
	stale       int    // Block calls since the last synchronisation event
	waiting     uint32 // threads that polled and cannot proceed until some thread changes synchronisation state
	nHarness    int
	deadlock    bool // teardown in progress
	Deadlock    bool // every live thread waits and a harness thread is among them
	DaemonsOnly bool // only goroutines started by the library were left waiting when the harness threads had ended
	Stuck       bool // watchdog fired
	Spawned     int
	SyncPoints  int

	collapse     bool // collapse chains of consecutive scheduling-point entries into one point
	lastWasPoint bool
}

func (e *Exec) aliveMask() uint32 {
	var m uint32

	for i, t := range e.threads {
		if !t.done {
			m |= 1 << i
		}
	}

	return m
}

func lowest(mask uint32) int {
	for i := 0; i < 32; i++ {
		if mask&(1<<i) != 0 {
			return i
		}
	}

	return -1
}

// point records a scheduling point and returns the thread that must run next.
func (e *Exec) point(kind uint8, id int) int {
	p := len(e.Kind)
	enabled := e.aliveMask() &^ e.waiting
	e.h = (e.h ^ uint64(uint32(id)+1)<<8 ^ uint64(e.cur+1)) * 1099511628211

	def := e.cur
	if kind != kindHook || def < 0 || enabled&(1<<def) == 0 {
		def = lowest(enabled)
	}

	e.Kind = append(e.Kind, kind)
	e.Cur = append(e.Cur, int8(e.cur))
	e.Alive = append(e.Alive, enabled)
	e.Def = append(e.Def, int8(def))
	e.Hash = append(e.Hash, e.h)

	next := def

	if e.planPos < len(e.plan) && e.plan[e.planPos].Point == p {
		next = e.plan[e.planPos].To
		e.planPos++

		if next < 0 || next >= len(e.threads) || enabled&(1<<next) == 0 {
			e.Diverge = fmt.Sprintf("planned thread %d is not runnable at point %d", next, p)
			next = def
		}
	}

	return next
}

// switchTo hands the processor to thread next and suspends the calling thread me until it is chosen again.
func (e *Exec) switchTo(me, next int) {
	e.cur = next
	e.threads[next].resume <- struct{}{}
	<-e.threads[me].resume

	if e.deadlock {
		panic(deadlockSentinel{})
	}
}

// Observer, when set, sees every function entry of a controlled execution before the scheduler does (trace recorders
// that need the deterministic order of a cooperative execution: C19 on a tree whose Multiply starts goroutines).
var Observer func(id int)

func (e *Exec) hook(id int) {
	if o := Observer; o != nil {
		o(id)
	}

	if e.deadlock {
		return
	}

	if !e.isPoint[id] {
		e.lastWasPoint = false
		return
	}

	// a chain of wrappers (Add -> add -> addProjectiveComplete) enters several functions with nothing in between:
	// when the granularity is coarser than "every function" only the first entry of such a chain is a scheduling
	// point (preempting between two consecutive entries is the same interleaving)
	if e.collapse && e.lastWasPoint {
		return
	}

	e.lastWasPoint = true

	if len(e.Kind) > e.maxPts {
		return // horizon: beyond it the running thread simply continues
	}

	me := e.cur
	if next := e.point(kindHook, id); next != me {
		e.switchTo(me, next)
	}
}

// syncPre: a synchronisation operation of the library is about to happen - always a scheduling point.
func (e *Exec) syncPre(kind int) {
	if e.deadlock {
		return
	}

	e.lastWasPoint = false
	e.SyncPoints++

	if len(e.Kind) > e.maxPts {
		return
	}

	me := e.cur
	if next := e.point(kindHook, -10-kind); next != me {
		e.switchTo(me, next)
	}
}

// syncPost: synchronisation state changed - every waiting thread polls again when it is next chosen.
func (e *Exec) syncPost() { e.waiting, e.stale = 0, 0 }

// block: the running thread polled and cannot proceed.
func (e *Exec) block() {
	if e.deadlock {
		panic(deadlockSentinel{})
	}

	me := e.cur
	e.waiting |= 1 << me
	e.stale++

	if alive := e.aliveMask(); alive&^e.waiting == 0 {
		// Every live thread waits. Before this is called a deadlock every one of them polls once more: a state
		// change the shims did not see (an operation of the standard library, plain memory) must not be mistaken
		// for one. Only when all of them have blocked again with no synchronisation event in between is it final.
		if e.stale > 2*popcount(alive) {
			e.declareDeadlock()
			panic(deadlockSentinel{})
		}

		e.waiting = 1 << me

		if alive == 1<<me {
			return // alone: poll again
		}
	}

	e.switchTo(me, e.point(kindBlock, -3))
}

func popcount(m uint32) int {
	n := 0
	for ; m != 0; m &= m - 1 {
		n++
	}

	return n
}

func (e *Exec) declareDeadlock() {
	e.deadlock = true

	for i := 0; i < e.nHarness; i++ {
		if !e.threads[i].done {
			e.Deadlock = true
			return
		}
	}

	e.DaemonsOnly = true
}

// spawn: the library starts a goroutine; it becomes a thread of this execution.
func (e *Exec) spawn(f func()) {
	if e.deadlock {
		return
	}

	if len(e.threads) >= maxThreads {
		e.Diverge = "the library started more goroutines than the scheduler models"
		return
	}

	t := &thread{body: f, resume: make(chan struct{})}
	e.threads = append(e.threads, t)
	e.Spawned++
	e.start(len(e.threads)-1, t)
	e.syncPre(vsync.KSpawn)
}

func (e *Exec) start(i int, t *thread) {
	go func() {
		<-t.resume

		defer func() {
			if p := recover(); p != nil {
				if _, tear := p.(deadlockSentinel); !tear && e.panicV == nil {
					e.panicV = p
				}
			}

			e.finish(i)
		}()

		if e.deadlock {
			return
		}

		t.body()
	}()
}

func (e *Exec) finish(me int) {
	e.threads[me].done = true
	e.waiting &^= 1 << me
	alive := e.aliveMask()

	if alive == 0 {
		e.mainCh <- struct{}{}
		return
	}

	if !e.deadlock && alive&^e.waiting == 0 {
		// everything that is left waits; the end of a thread may be what they wait for (see block): one more poll each
		e.waiting, e.stale = 0, 0
	}

	next := lowest(alive)
	if !e.deadlock {
		next = e.point(kindFinish, -1)
	}

	e.cur = next
	e.threads[next].resume <- struct{}{}
}

// Run executes bodies under plan. isPoint selects the scheduling-point granularity.
func Run(bodies []func(), plan []Decision, isPoint []bool) *Exec {
	e := &Exec{plan: plan, isPoint: isPoint, mainCh: make(chan struct{}, 1), h: 1469598103934665603, maxPts: 1 << 20}

	for _, p := range isPoint {
		if !p {
			e.collapse = true // coarse granularity
			break
		}
	}

	for _, b := range bodies {
		e.threads = append(e.threads, &thread{body: b, resume: make(chan struct{})})
	}

	e.nHarness = len(e.threads)
	vsync.Reset()

	for i, t := range e.threads {
		e.start(i, t)
	}

	e.cur = -1
	first := e.point(kindInitial, -2)
	e.cur = first
	verifrt.Hook = e.hook
	verifrt.SyncPre, verifrt.SyncPost, verifrt.BlockHook, verifrt.GoHook = e.syncPre, e.syncPost, e.block, e.spawn
	e.threads[first].resume <- struct{}{}

	watchdog := time.NewTimer(StuckAfter)

	select {
	case <-e.mainCh:
	case <-watchdog.C:
		e.Stuck = true
	}

	watchdog.Stop()

	verifrt.Hook = nil
	verifrt.SyncPre, verifrt.SyncPost, verifrt.BlockHook, verifrt.GoHook = nil, nil, nil, nil

	if e.Stuck {
		return e
	}

	if e.planPos < len(e.plan) && e.Diverge == "" {
		e.Diverge = fmt.Sprintf("execution ended after %d points before planned decision %d (at point %d) was reached", len(e.Kind), e.planPos, e.plan[e.planPos].Point)
	}

	return e
}

// Panic returns the first panic raised by a thread body, if any.
func (e *Exec) Panic() any { return e.panicV }

// Preemptions counts the planned decisions that switch away from a running thread.
func (e *Exec) Preemptions() int {
	n := 0

	for _, d := range e.plan {
		if d.Point < len(e.Kind) && e.Kind[d.Point] == kindHook {
			n++
		}
	}

	return n
}

// Explorer enumerates all schedules with at most Bound preemptions.
type Explorer struct {
	Bound     int
	IsPoint   []bool
	NewBodies func() []func()                            // fresh bodies (and fresh shared state) for one execution
	Check     func(e *Exec, plan []Decision) (stop bool) // called after every execution
	Schedules int64
	Points    int64
	MaxPoints int
	ToolErr   string
	Budget    func() bool // returns true when exploration must stop (wall-clock guard)
	Stopped   bool
	Foreign   bool  // goroutines of the library outlive their calls (workers): executions are not owned; abandoned
	Stuck     bool  // an execution made no progress (blocking the scheduler does not own): exploration abandoned
	Spawned   int64 // goroutines started by the library, over all executions
	SyncOps   int64 // synchronisation operations of the library, over all executions
}

// Explore runs the depth-first search from the empty plan.
func (x *Explorer) Explore() { x.explore(nil, 0, nil) }

func (x *Explorer) explore(plan []Decision, preempt int, parentHash []uint64) {
	if x.ToolErr != "" || x.Stopped {
		return
	}

	if x.Budget != nil && x.Schedules%64 == 0 && x.Budget() {
		x.Stopped = true
		return
	}

	if verifrt.GoLive.Load() != 0 {
		x.Foreign, x.Stopped = true, true
		return
	}

	e := Run(x.NewBodies(), plan, x.IsPoint)
	x.Schedules++
	x.Points += int64(len(e.Kind))
	x.Spawned += int64(e.Spawned)
	x.SyncOps += int64(e.SyncPoints)

	if e.Stuck {
		x.Stuck, x.Stopped = true, true
		return
	}

	if len(e.Kind) > x.MaxPoints {
		x.MaxPoints = len(e.Kind)
	}

	if e.Diverge != "" {
		x.ToolErr = "replay of a recorded schedule prefix diverged: " + e.Diverge
		return
	}

	// the prefix up to the last planned decision must replay exactly as it was recorded by the parent
	if n := len(plan); n > 0 && parentHash != nil {
		p := plan[n-1].Point
		if p >= len(e.Hash) || e.Hash[p] != parentHash[p] {
			x.ToolErr = fmt.Sprintf("nondeterminism: prefix of %d points did not replay identically", p+1)
			return
		}
	}

	if x.Check(e, plan) {
		x.Stopped = true
		return
	}

	start := 0
	if len(plan) > 0 {
		start = plan[len(plan)-1].Point + 1
	}

	for p := start; p < len(e.Kind); p++ {
		cost := preempt
		def := int(e.Def[p])

		if e.Kind[p] == kindHook {
			cost++
		}

		if cost > x.Bound {
			continue
		}

		for t := 0; t < 32; t++ {
			if e.Alive[p]&(1<<t) == 0 || t == def {
				continue
			}

			child := append(append(make([]Decision, 0, len(plan)+1), plan...), Decision{p, t})
			x.explore(child, cost, e.Hash)

			if x.ToolErr != "" || x.Stopped {
				return
			}
		}
	}
}
