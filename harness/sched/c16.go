package sched

import (
	"bytes"
	"fmt"
	"os"
	"strings"

	secp256k1 "github.com/bytemare/secp256k1"
	"github.com/bytemare/secp256k1/internal/verif/conc"
	"github.com/bytemare/secp256k1/internal/verif/ev"
	"github.com/bytemare/secp256k1/internal/verif/prelude"
	"github.com/bytemare/secp256k1/internal/verif/verifrt"
)

// Case mirrors checks.Case.
type Case map[string]string

// Scenario: one list of alphabet indices per thread (executed in order by that thread).
type Scenario [][]int

func (s Scenario) String() string {
	var parts []string

	for _, th := range s {
		var names []string
		for _, i := range th {
			names = append(names, conc.Ops[i].Name)
		}

		parts = append(parts, strings.Join(names, " ; "))
	}

	return strings.Join(parts, " || ")
}

func (s Scenario) Encode() string {
	var parts []string

	for _, th := range s {
		var idx []string
		for _, i := range th {
			idx = append(idx, fmt.Sprint(i))
		}

		parts = append(parts, strings.Join(idx, ","))
	}

	return strings.Join(parts, "|")
}

func DecodeScenario(s string) Scenario {
	var out Scenario

	for _, th := range strings.Split(s, "|") {
		var idx []int

		for _, f := range strings.Split(th, ",") {
			var i int
			fmt.Sscan(f, &i)
			idx = append(idx, i)
		}

		out = append(out, idx)
	}

	return out
}

func granularity(rootOnly bool) []bool {
	out := make([]bool, len(verifrt.Names))

	for i, n := range verifrt.Names {
		out[i] = !rootOnly || strings.HasPrefix(n, "secp256k1.")
	}

	return out
}

// countPoints runs op alone and counts its scheduling points at full granularity.
func countPoints(op conc.Op) int {
	n := 0
	verifrt.Hook = func(int) { n++ }
	op.Run(conc.NewShared())
	verifrt.Hook = nil

	return n
}

type observation struct {
	results [][]byte
	shared  bool // shared state intact
	globals bool
	panicV  any
}

type runner struct {
	sc       Scenario
	expected [][]byte // per thread: concatenated results of its ops run alone
	snap0    []byte
	globals0 string

	// state of the execution being built / checked
	sh      *conc.Shared
	results [][]byte
}

func newRunner(sc Scenario) *runner {
	r := &runner{sc: sc, snap0: conc.NewShared().Snapshot(), globals0: secp256k1.VerifAllGlobals()}

	for _, th := range sc {
		var exp []byte
		for _, i := range th {
			exp = append(exp, conc.Alone(conc.Ops[i])...)
			exp = append(exp, 0xfe)
		}

		r.expected = append(r.expected, exp)
	}

	return r
}

func (r *runner) bodies() []func() {
	r.sh = conc.NewShared()
	r.results = make([][]byte, len(r.sc))

	var out []func()

	for t, th := range r.sc {
		t, th := t, th

		out = append(out, func() {
			var res []byte
			for _, i := range th {
				res = append(res, conc.Ops[i].Run(r.sh)...)
				res = append(res, 0xfe)
			}

			r.results[t] = res
		})
	}

	return out
}

// verdict checks the C16 oracle for the execution that just ended.
func (r *runner) verdict(e *Exec) (key, detail string) {
	if p := e.Panic(); p != nil {
		return "concurrent/panic", fmt.Sprint(p)
	}

	if e.Deadlock {
		return "concurrent/deadlock", "every live thread waits for a lock, wait group or condition that no thread can release any more"
	}

	for t := range r.sc {
		if !bytes.Equal(r.results[t], r.expected[t]) {
			return "concurrent/result-differs-from-running-alone", fmt.Sprintf("thread %d: got %x want %x", t, r.results[t], r.expected[t])
		}
	}

	if !bytes.Equal(r.sh.Snapshot(), r.snap0) {
		return "concurrent/shared-argument-modified", "a shared read-only argument changed"
	}

	if g := secp256k1.VerifAllGlobals(); g != r.globals0 {
		return "concurrent/package-level-state-changed", g
	}

	return "", ""
}

func clipStr(s string) string {
	if len(s) > 300 {
		return s[:300] + "..."
	}

	return s
}

func planString(plan []Decision) string {
	var p []string
	for _, d := range plan {
		p = append(p, fmt.Sprintf("%d:%d", d.Point, d.To))
	}

	return strings.Join(p, ",")
}

func parsePlan(s string) []Decision {
	var out []Decision

	if s == "" {
		return nil
	}

	for _, f := range strings.Split(s, ",") {
		var d Decision
		fmt.Sscanf(f, "%d:%d", &d.Point, &d.To)
		out = append(out, d)
	}

	return out
}

// exploreScenario explores one scenario and reports into r.
func exploreScenario(rep *ev.Report, sc Scenario, bound int, rootOnly bool) {
	if stuck {
		return
	}

	run := newRunner(sc)
	outcomes := map[string]bool{}
	gran := granularity(rootOnly)
	checked := 0

	x := &Explorer{
		Bound: bound, IsPoint: gran, NewBodies: run.bodies, Budget: rep.Expired,
		Check: func(e *Exec, plan []Decision) bool {
			key, detail := run.verdict(e)
			sig := fmt.Sprintf("%x", run.results)
			outcomes[sig] = true

			// the same schedule must give the same observation when replayed (always for violations, and for a
			// sample of the schedules)
			if key != "" || checked < 3 {
				checked++

				first := append([][]byte{}, run.results...)
				h := e.h
				e2 := Run(run.bodies(), plan, gran)
				key2, _ := run.verdict(e2)

				if e2.h != h || key2 != key || fmt.Sprintf("%x", run.results) != fmt.Sprintf("%x", first) {
					// State that the package keeps between calls is nondeterminism the library owns, not the harness:
					// when the package-level variables differ from their initial rendering, the differing replay is the
					// consequence of exactly what the property forbids ("the package keeps no mutable global state").
					if g := secp256k1.VerifAllGlobals(); g != run.globals0 || (prelude.Baseline != "" && g != prelude.Baseline) {
						rep.Violation("concurrent/package-level-state-changed", fmt.Sprintf("scenario %s, schedule [%s]: executing the same schedule twice gives different observations, and the package-level variables differ from their initial values: %s", sc, planString(plan), clipStr(g)),
							Case{"op": "schedule", "scenario": sc.Encode(), "names": sc.String(), "plan": planString(plan), "granularity": map[bool]string{true: "G1", false: "G2"}[rootOnly], "past": fmt.Sprint(conc.Past)})

						return true
					}

					rep.ToolError("schedule %q of scenario %q is not reproducible (unowned nondeterminism)", planString(plan), sc)
					return true
				}
			}

			if key != "" {
				gname := "G2"
				if rootOnly {
					gname = "G1"
				}

				rep.Violation(key, fmt.Sprintf("scenario %s%s, schedule [%s] (%d preemptions): %s", sc, map[bool]string{true: " on shared objects with a past", false: ""}[conc.Past], planString(plan), e.Preemptions(), detail),
					Case{"op": "schedule", "scenario": sc.Encode(), "names": sc.String(), "plan": planString(plan), "granularity": gname, "past": fmt.Sprint(conc.Past)})
			}

			return false
		},
	}

	x.Explore()

	if x.ToolErr != "" {
		if g := secp256k1.VerifAllGlobals(); g != run.globals0 || (prelude.Baseline != "" && g != prelude.Baseline) {
			// see above: a prefix that does not replay identically because the package keeps state between calls
			rep.Violation("concurrent/package-level-state-changed", fmt.Sprintf("scenario %s: %s, and the package-level variables differ from their initial values: %s", sc, x.ToolErr, clipStr(g)),
				Case{"op": "schedule", "scenario": sc.Encode(), "names": sc.String(), "plan": "", "granularity": map[bool]string{true: "G1", false: "G2"}[rootOnly], "past": fmt.Sprint(conc.Past)})
		} else {
			rep.ToolError("%s (scenario %s)", x.ToolErr, sc)
		}
	}

	if x.Foreign {
		stuck = true
		rep.Incomplete("the library keeps goroutines running between calls (a worker started by an init function or by an earlier call): their steps reach the scheduler from outside its threads, so no cooperative execution owns them; the scheduler exploration is not applicable to this tree - the race pass, footprint and watch parts still decide")
	}

	if x.Stuck {
		stuck = true
		rep.Incomplete(fmt.Sprintf("an execution of scenario %s made no progress for %v: the tree blocks in a way the cooperative scheduler does not own (channel operation, spin loop on plain memory, ...); the scheduler exploration was abandoned - the race pass, footprint and watch parts still decide", sc, StuckAfter))
	}

	rep.Count("goroutines_started_by_the_library", x.Spawned)
	rep.Count("library_synchronisation_operations", x.SyncOps)

	if x.Stopped && rep.Expired() {
		rep.Incomplete("wall-clock guard during scenario " + sc.String())
	}

	rep.States.Add(x.Points)
	rep.Transitions.Add(x.Points)
	rep.Evals.Add(x.Schedules)
	rep.Count("schedules", x.Schedules)
	rep.Count("scenarios", 1)
	rep.Count(fmt.Sprintf("scenarios_with_%d_outcomes", len(outcomes)), 1)

	if len(outcomes) > 1 {
		rep.Distinct.Add(int64(len(outcomes)))
	}

	if x.Schedules > 1 {
		rep.Distinct.Add(1)
	}
}

// stuck is set once an execution hung (see Explorer.Stuck): no further scenario is explored in this process.
var stuck bool

func inSub(sc Scenario, sub []int) bool {
	for _, th := range sc {
		for _, o := range th {
			found := false
			for _, x := range sub {
				found = found || x == o
			}

			if !found {
				return false
			}
		}
	}

	return true
}

func shard() (int, int) {
	i, n := 0, 1
	fmt.Sscanf(os.Getenv("VERIF_SHARD"), "%d/%d", &i, &n)

	if n < 1 {
		n = 1
	}

	return i, n
}

// C16sched: controlled-scheduler exploration of the concurrency alphabet.
func C16sched(rep *ev.Report) {
	if len(verifrt.Names) == 0 {
		rep.ToolError("binary is not instrumented")
		return
	}

	si, sn := shard()
	longThreshold := 400
	long := make([]bool, len(conc.Ops))
	nLong := 0

	pointsG2 := make([]int, len(conc.Ops))

	spawns := make([]bool, len(conc.Ops))

	for i, op := range conc.Ops {
		g0 := verifrt.GoCount.Load()
		pointsG2[i] = countPoints(op)
		spawns[i] = verifrt.GoCount.Load() != g0
		long[i] = pointsG2[i] > longThreshold

		if long[i] {
			nLong++
		}
	}

	if os.Getenv("VERIF_C16_POINTS") != "" {
		for i, op := range conc.Ops {
			fmt.Fprintf(os.Stderr, "%-36s G2 points=%d\n", op.Name, pointsG2[i])
		}
	}

	boundShort, boundLong := 2, 1
	rep.Rule("cooperative scheduler over the instrumented build, scheduling point = function entry and every synchronisation operation of the library (its imports of sync and sync/atomic and its go statements are redirected to shims: lock, unlock, once, wait group, pool, atomic load/store/CAS, spawn; a thread that cannot proceed is suspended and re-polled after another thread changed synchronisation state; goroutines started by the library are threads of the execution; all live threads waiting = deadlock, reported) (G2: all three packages, for operations with <= 400 entries; G1: root package only, when a long operation - Multiply, hashing to the group, decoding - takes part); scenarios = all ordered pairs of the concurrency alphabet (2 threads x 1 operation) on shared arguments incl. overlapping DST slices with spare capacity, plus 3 threads x 1 and 2 threads x 2 operations on a sub-alphabet; for every scenario ALL schedules within the preemption bound are executed: short operations G2 with <= 2 preemptions (thorough: <= 3 on the sub-alphabet), medium operations (up to 4000 entries) G1 with <= 2 preemptions (thorough: additionally G2 with <= 1), huge operations and 3-thread / 2-operation scenarios <= 1 preemption; oracle per schedule: every thread's result equals the result of the same calls run alone, shared arguments bit-identical, package-level variables unchanged; every violating schedule and a sample of the others are replayed and must reproduce; prefix replay divergence is a tool error; non-trivial = scenarios with more than one schedule")
	rep.Bound("preemption_bound_G2", boundShort)
	rep.Bound("preemption_bound_G1", boundLong)
	rep.Bound("alphabet", len(conc.Ops))
	rep.Bound("long_operations", nLong)
	rep.Bound("shard", fmt.Sprintf("%d/%d", si, sn))

	var scenarios []Scenario

	// core operations: all ordered pairs; value-class operations: with each other and with a few core operations;
	// API-coverage operations: with themselves and with those core operations (conc.PairWanted)
	for a, oa := range conc.Ops {
		for b, ob := range conc.Ops {
			if conc.PairWanted(oa.Name, ob.Name) {
				scenarios = append(scenarios, Scenario{{a}, {b}})
			}
		}
	}

	// sub-alphabet for 3 threads and for 2 operations per thread: short operations that touch every kind of shared argument
	var sub []int

	for i, op := range conc.Ops {
		switch op.Name {
		case "HashToScalar(M,D[:18])", "HashToScalar(M,D[:20])", "Element.Subtract(E1)", "Element.Subtract(E2)", "Scalar.Set(S1).Add(S2)", "Order()":
			sub = append(sub, i)
		}
	}

	for _, a := range sub {
		for _, b := range sub {
			for _, c := range sub {
				scenarios = append(scenarios, Scenario{{a}, {b}, {c}})
			}

			for _, c := range sub[:3] {
				scenarios = append(scenarios, Scenario{{a, c}, {b, a}})
			}
		}
	}

	// an operation during which the library starts goroutines has interleavings of its own: one harness thread, the
	// library's goroutines as the other threads of the execution
	nSolo := 0

	for i := range conc.Ops {
		if spawns[i] {
			scenarios = append(scenarios, Scenario{{i}})
			nSolo++
		}
	}

	rep.Bound("single_call_scenarios_for_operations_that_start_goroutines", nSolo)
	rep.Bound("scenarios_total", len(scenarios))

	// second pass: the two-thread scenarios whose operations name a shared element or scalar, on shared state WITH A
	// PAST (conc.Past); pass 0 is the fresh state
	nFirst := len(scenarios)

	for _, sc := range scenarios[:nFirst] {
		if len(sc) == 2 && len(sc[0]) == 1 && len(sc[1]) == 1 && conc.UsesSharedObject(conc.Ops[sc[0][0]].Name) && conc.UsesSharedObject(conc.Ops[sc[1][0]].Name) {
			scenarios = append(scenarios, sc)
		}
	}

	rep.Bound("scenarios_repeated_on_state_with_a_past", len(scenarios)-nFirst)

	for i, sc := range scenarios {
		conc.Past = i >= nFirst

		// multiplicative hashing spreads the long operations evenly over the shards (i % sn would give one shard
		// every pair whose second operation is a long one)
		if int((uint32(i)*2654435761)>>16)%sn != si {
			continue
		}

		anyLong, anyHuge := false, false
		threads := len(sc)
		ops := 0

		for _, th := range sc {
			for _, o := range th {
				anyLong = anyLong || long[o]
				anyHuge = anyHuge || pointsG2[o] > 4000
				ops++
			}
		}

		simple := (threads == 2 && ops == 2) || (threads == 1 && ops == 1)

		switch {
		case !anyLong && simple:
			// short operations: every function entry is a scheduling point, 2 preemptions
			exploreScenario(rep, sc, boundShort, false)

			if ev.Thorough() && inSub(sc, sub) {
				exploreScenario(rep, sc, 3, false)
			}
		case !anyLong:
			exploreScenario(rep, sc, boundLong, false)
		case anyHuge || !simple:
			// Multiply, hashing to the group, compressed decoding: root-package entries only, 1 preemption
			exploreScenario(rep, sc, boundLong, true)
		default:
			// medium operations (one inversion or so): root-package entries with 2 preemptions, and in the thorough
			// tier every function entry with 1 preemption
			exploreScenario(rep, sc, 2, true)

			if ev.Thorough() {
				exploreScenario(rep, sc, 1, false)
			}
		}

		if rep.Expired() || stuck {
			break
		}
	}

	conc.Past = false

	rep.Sample(Case{"op": "schedule", "scenario": "0|1", "names": Scenario{{0}, {1}}.String(), "plan": "0:1,7:0", "granularity": "G2"})
	rep.Sample(Case{"op": "schedule", "scenario": "9|10", "names": Scenario{{9}, {10}}.String(), "plan": "12:1", "granularity": "G2"})
}

// ReplayC16 re-executes one recorded schedule.
func ReplayC16(c Case) (bool, string) {
	conc.Past = c["past"] == "true"
	defer func() { conc.Past = false }()

	sc := DecodeScenario(c["scenario"])
	run := newRunner(sc)
	e := Run(run.bodies(), parsePlan(c["plan"]), granularity(c["granularity"] == "G1"))

	if e.Diverge != "" {
		return false, "schedule does not apply to the current tree: " + e.Diverge
	}

	key, detail := run.verdict(e)

	return key == "", key + " " + detail
}
